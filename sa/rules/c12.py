"""C12 - gentest: the generated test fails when the command behaves differently."""
import ast

from ..flow import GuardMap
from ..model import AnalysisError, norm
from .c11 import mustemit, GT
from .common import names_in, dep_closure

REF_SOURCES = {'self.ref_path', 'self.stdout_path', 'self.stderr_path', 'self.ref_map', 'self.ref_map.get'}


def check(run):
    p = run.prog
    from . import gentest_script
    run.attempt(gentest_script.run_rule, run, p, 'C12')
    run.attempt(mustemit, run, p, 'C12-ONEASSERT')
    # the generated stdout / stderr tests rest on the string-against-file comparison seeing the text as it is
    from .c04 import split
    run.attempt(split, run, p, p.cls('FilesComparison'))
    if 'C04-SPLIT' in run.rules:
        run.rules['C12-SPLIT'] = run.rules.pop('C04-SPLIT') + ' (a change of the command\'s output that is only trailing blanks on a line must still fail the generated test)'
        for o in run.obs:
            if o.rule == 'C04-SPLIT':
                o.rule = 'C12-SPLIT'
        run.floors = [(('C12-SPLIT' if r == 'C04-SPLIT' else r), c, m) for r, c, m in run.floors]
    run.attempt(roles, run, p)
    run.attempt(order, run, p)
    run.attempt(exitcode, run, p)
    run.attempt(unique, run, p)
    run.attempt(strict, run, p)
    run.attempt(exclprov, run, p)
    run.attempt(cleanset, run, p)
    run.attempt(deadattr, run, p)
    run.attempt(filekind, run, p)
    # the generated test looks at the files the command wrote: every path expression written into the script denotes the original
    # path (else the test fails with nothing changed, and the real output is never compared)
    from .common import shared_rule
    from .c11 import joinrepr
    shared_rule(run, joinrepr, (run, p), 'C11-JOINREPR', 'C12-JOINREPR', ' (so the test compares the file the command wrote)')
    # a binary output that changed makes its test fail: the comparison the generated assertBinaryFileCorrect calls, evaluated
    from .c15 import binary_cases
    run.rule('C12-BINARY', 'check_binary_file, evaluated on an in-memory file system, fails for byte strings that differ anywhere - first '
                           'byte, beyond a 64 KiB block, in length only (one a prefix of the other, the shorter ending exactly on a block '
                           'boundary, or empty) - and passes identical ones')
    nb = []
    run.attempt(lambda: nb.append(binary_cases(run, p, p.cls('FilesComparison'), 'C12-BINARY')))
    run.floor('C12-BINARY', nb[0] if nb else 0, 10)
    from .common import gotcha_rule
    n = gotcha_rule(run, 'C12-WHOLESTR', p, ['tdda.referencetest.gentest', 'tdda.referencetest.utils', 'tdda.referencetest.diffrex'],
                    'names and machine-specific strings are handled whole: no constant written ("text") - a one-element tuple without '
                    'its comma - is used with `in` (that is a substring test: an output called "cache" would be ignored as part of '
                    '"__pycache__"), and no exclusion list is extended by a single string (+= / extend add its characters)')
    run.floor('C12-WHOLESTR', n, 3)


DEAD_BY_DESIGN = {
    'cwd_in_home': 'computed next to user_in_home but never consulted on the pinned tree (harmless leftover)',
}


def deadattr(run, p):
    run.rule('C12-DEADATTR', 'every fact the generator computes about its environment is the one its decisions read: an attribute '
                             'that TestGenerator.__init__ computes (not a plain copy of an argument) is read somewhere in the '
                             'generator - a computed attribute nobody reads means a decision is being taken on a different one')
    c = p.cls('TestGenerator')
    init = c.methods['__init__']
    loads = set()
    for x in ast.walk(c.mod.tree):
        if isinstance(x, ast.Attribute) and isinstance(x.ctx, ast.Load):
            loads.add(x.attr)
        if isinstance(x, ast.Call) and getattr(x.func, 'id', '') in ('getattr', 'hasattr') and len(x.args) > 1 and \
                isinstance(x.args[1], ast.Constant):
            loads.add(x.args[1].value)
    n = 0
    for s in p.own_nodes(init):
        if not isinstance(s, ast.Assign):
            continue
        for t in s.targets:
            if not (isinstance(t, ast.Attribute) and isinstance(t.value, ast.Name) and t.value.id == 'self'):
                continue
            v = s.value
            if isinstance(v, (ast.Name, ast.Constant)) or (isinstance(v, ast.BoolOp) and all(isinstance(e, (ast.Name, ast.Constant)) for e in v.values)):
                continue            # argument stored as given / constant default: part of the object's interface
            n += 1
            if t.attr in DEAD_BY_DESIGN and t.attr not in loads:
                run.note('C12-DEADATTR', 'never read, by design: self.%s (%s)' % (t.attr, DEAD_BY_DESIGN[t.attr]), fn=init, node=s)
                continue
            run.ob('C12-DEADATTR', '%s::%s::self.%s' % (init.rel, init.short, t.attr), t.attr in loads,
                   'self.%s = %s is %s' % (t.attr, norm(v)[:50], 'read by the generator' if t.attr in loads else
                                           'computed but never read: the decision it was computed for now reads something else'),
                   fn=init, node=s, nontrivial=False)
    run.floor('C12-DEADATTR', n, 10)



def roles(run, p):
    run.rule('C12-ROLES', 'in every emitted assertion the actual argument comes from the command\'s own output (its path, self.output, '
                          'self.error) and the reference argument from the stored reference (ref_path / stdout_path / stderr_path); the '
                          'two never share a source')
    ws = p.method('TestGenerator', 'write_script')
    n = 0
    for x, name, actual, aclo, ref, rclo in test_def_sites(p, ws):
        n += 1
        a_ok = not (aclo & REF_SOURCES) if not isinstance(actual, ast.Constant) else actual.value in ('self.output', 'self.error')
        r_ok = bool(rclo & REF_SOURCES)
        stream = name.value if isinstance(name, ast.Constant) else None
        if stream == 'stdout':
            a_ok = a_ok and isinstance(actual, ast.Constant) and actual.value == 'self.output' and 'self.stdout_path' in rclo
        if stream == 'stderr':
            a_ok = a_ok and isinstance(actual, ast.Constant) and actual.value == 'self.error' and 'self.stderr_path' in rclo
        from .c11 import backed
        backed(run, 'C12-ROLES', 'test_def:%s' % norm(name)[:20], a_ok and r_ok,
               'test %s: actual=%s (from %s), reference=%s (from %s)' % (norm(name), norm(actual), sorted(aclo & (REF_SOURCES | {'path'})) or 'the command',
                                                                        norm(ref), sorted(rclo & REF_SOURCES) or 'NOT the reference store'), 'C12-SCRIPT', fn=ws, node=x)
    run.floor('C12-ROLES', n, 4)


def test_def_sites(p, ws):
    """(call in write_script, test name, actual expression, its sources, reference expression, its sources) for every test the
    generator writes: test_def called directly, or by a helper method of the generator that write_script calls, in which case the
    helper's parameters stand for the arguments write_script passes."""
    out = []
    for x in p.own_nodes(ws):
        if not isinstance(x, ast.Call):
            continue
        if getattr(x.func, 'id', '') == 'test_def':
            if len(x.args) >= 4:
                out.append((x, x.args[0], x.args[1], _closure_at(ws, x.args[1]), x.args[3], _closure_at(ws, x.args[3])))
            continue
        for h in {t for c, ts, _k in p.calls(ws) if c is x for t, _ctx in ts}:
            if h.cls is None or h is ws:
                continue
            pos = list(h.posparams)[1:]
            bound = {pos[i]: a for i, a in enumerate(x.args) if i < len(pos)}
            bound.update({k.arg: k.value for k in x.keywords if k.arg})
            for c in p.own_nodes(h):
                if not (isinstance(c, ast.Call) and getattr(c.func, 'id', '') == 'test_def' and len(c.args) >= 4):
                    continue

                def through(e):
                    # the expression as write_script sees it, and everything it derives from on both sides of the call
                    clo = _closure_at(h, e)
                    for nm in list(clo):
                        if nm in bound:
                            clo |= _closure_at(ws, bound[nm])
                    return (bound[e.id] if isinstance(e, ast.Name) and e.id in bound else e), clo
                name, _ = through(c.args[0])
                actual, aclo = through(c.args[1])
                ref, rclo = through(c.args[3])
                for e, orig in ((name, c.args[0]), (actual, c.args[1]), (ref, c.args[3])):
                    e._ctx = ws if e is not orig else h       # the function whose assignments define the names in e
                out.append((x, name, actual, aclo, ref, rclo))
    return out


def _closure_at(f, e):
    """def-use closure following only the last definition before each use (straight-line order)."""
    out = set()
    work = [(e, getattr(e, 'lineno', 10 ** 9))]
    seen = set()
    while work:
        x, line = work.pop()
        for nm in names_in(x):
            out.add(nm)
            if not nm.isidentifier():
                continue
            defs = [(s.lineno, s.value, s) for s in ast.walk(f.node) if isinstance(s, ast.Assign) and any(norm(t) == nm for t in s.targets)
                    and s.lineno < line]
            defs += [(s.lineno, s.iter, s) for s in ast.walk(f.node) if isinstance(s, ast.For) and nm in {y.id for y in ast.walk(s.target) if isinstance(y, ast.Name)}
                     and s.lineno < line]
            if defs:
                ln, val, d = max(defs, key=lambda t: t[0])
                if id(d) not in seen:
                    seen.add(id(d))
                    work.append((val, ln))
        for c in ast.walk(x):
            if isinstance(c, ast.Call) and isinstance(c.func, ast.Attribute) and isinstance(c.func.value, ast.Attribute):
                out.add(norm(c.func))
    return out


def exec_command_eval(p, ec, out, err, rc, fail=None):
    """exec_command('the command', '/d') evaluated with a stand-in subprocess module -> (result, [(command, Popen keywords)])"""
    from ..pyeval import Interp, Model, Unsupported, Raised, pure_os

    class Proc(Model):
        def __init__(self):
            self.returncode = rc

        def communicate(self):
            return (out, err)

    class SP(Model):
        PIPE = -1

        def __init__(self):
            self.calls = []

        def Popen(self, command, **kw):
            self.calls.append((command, kw))
            if fail is not None:
                raise fail
            return Proc()

    class Clock(Model):
        def __init__(self):
            self.t = [10.0, 12.5, 13.0, 14.0]

        def default_timer(self):
            return self.t.pop(0)
    sp = SP()
    I = Interp(p, consts={'is_python3': True})
    osm = pure_os()
    osm.environ = {}
    I.extra_names.update({'subprocess': sp, 'timeit': Clock(), 'os': osm})
    try:
        return I.call(ec, ['the command', '/d']), sp.calls
    except (Unsupported, Raised) as e:
        return None, str(e)


def order(run, p):
    run.rule('C12-ORDER', 'the generated class removes previous outputs before it re-runs the command, runs the command through '
                          'exec_command exactly once in setUpClass, and its exception / exit-code tests read what that call assigned')
    bp = p.mod('tdda.referencetest.gentest_boilerplate')
    header = p.const(bp, 'HEADER')
    try:
        filled = header % {'SCRIPT': 's', 'GEN_COMMAND': 'g', 'CLASSNAME': 'X', 'COMMAND': "'c'", 'CWD': "'d'", 'NAME': "'n'",
                           'SET_TMPDIR': '', 'GENERATED_FILES': '', 'REMOVE_PREVIOUS_OUTPUTS': '__REMOVE_SLOT__', 'EXIT_CODE': 0}
        tree = ast.parse(filled)
    except Exception as e:
        raise AnalysisError('header template does not instantiate to Python source: %s' % e)
    cls = [n for n in tree.body if isinstance(n, ast.ClassDef)]
    if len(cls) != 1:
        raise AnalysisError('header template defines %d classes' % len(cls))
    meths = {n.name: n for n in cls[0].body if isinstance(n, ast.FunctionDef)}
    su = meths.get('setUpClass')
    ok = su is not None and len(su.body) >= 2 and norm(su.body[0]) == '__REMOVE_SLOT__'
    ex = [x for x in ast.walk(su) if isinstance(x, ast.Call) and getattr(x.func, 'id', '') == 'exec_command'] if su else []
    ok = ok and len(ex) == 1 and [norm(a) for a in ex[0].args] == ['cls.command', 'cls.cwd']
    tgt = []
    if su:
        for s in su.body:
            if isinstance(s, ast.Assign) and isinstance(s.value, ast.Call) and getattr(s.value.func, 'id', '') == 'exec_command':
                tgt = [norm(t) for t in s.targets[0].elts] if isinstance(s.targets[0], ast.Tuple) else []
    ok = ok and tgt[:4] == ['cls.output', 'cls.error', 'cls.exception', 'cls.exit_code']
    run.ob('C12-ORDER', 'HEADER:setUpClass', ok, 'setUpClass: remove-previous-outputs slot first, then one exec_command(cls.command, cls.cwd) assigned to %s' % tgt, rel=bp.rel, line=1)
    t1 = meths.get('test_no_exception')
    ok1 = t1 is not None and any(norm(x) == 'self.assertIsNone(self.exception)' for x in ast.walk(t1))
    t2 = meths.get('test_exit_code')
    ok2 = t2 is not None and any(norm(x) == 'self.assertEqual(self.exit_code, 0)' for x in ast.walk(t2))
    run.ob('C12-ORDER', 'HEADER:tests', ok1 and ok2, 'test_no_exception asserts self.exception is None (%s); test_exit_code asserts self.exit_code == EXIT_CODE (%s)' % (ok1, ok2), rel=bp.rel, line=1)
    # exec_command, evaluated with a stand-in subprocess / clock: one Popen of the command in the directory, and the five values in
    # the order setUpClass unpacks them - for a normal run, for a command that cannot be started, for output that is not UTF-8
    ec = p.fn(GT + 'exec_command')
    probs = []
    for label, (out, err, rc, fail), want in (
            ('a run that exits 3', (b'out\xc3\xa9', b'err', 3, None), ('out\u00e9', 'err', None, 3, 2.5)),
            ('a command that cannot be started', (b'', b'', 0, OSError('cannot start')), (None, None, 'OSError', None, 2.5)),
            ('output that is not UTF-8', (b'\xff', b'err', 0, None), (None, None, 'UnicodeDecodeError', 0, 2.5))):
        got, calls = exec_command_eval(p, ec, out, err, rc, fail)
        if got is None:
            raise AnalysisError('exec_command is not evaluable: %s' % calls)
        if not (isinstance(got, tuple) and len(got) == 5):
            probs.append('%s: returns %r' % (label, got))
            continue
        shown = tuple(type(x).__name__ if isinstance(x, BaseException) else x for x in got)
        if label.startswith('output that'):
            okk = shown[2] == 'UnicodeDecodeError' and shown[3] == 0 and shown[4] == 2.5
        else:
            okk = shown == want
        if not okk:
            probs.append('%s: returns %r' % (label, shown))
        if len(calls) != 1 or calls[0][0] != 'the command' or calls[0][1].get('cwd') != '/d' or not calls[0][1].get('shell'):
            probs.append('%s: the command is started %d time(s): %r' % (label, len(calls), calls[:1]))
    run.ob('C12-ORDER', 'exec_command', not probs, 'exec_command, evaluated on three runs, returns (output, error, exception, exit code, duration) '
           'from one start of the command%s' % ('' if not probs else ': ' + '; '.join(probs[:2])), fn=ec)
    # remove_previous_outputs deletes the generated files
    rp = p.method('TestGenerator', 'remove_previous_outputs')
    src = ' '.join(x.value for x in ast.walk(rp.node) if isinstance(x, ast.Constant) and isinstance(x.value, str))
    run.ob('C12-ORDER', 'remove_previous_outputs', 'os.unlink(path)' in src and 'cls.generated_files' in src,
           'the remove slot unlinks every path of cls.generated_files', fn=rp, nontrivial=False)
    run.floor('C12-ORDER', 4, 4)


def exitcode(run, p):
    run.rule('C12-EXITCODE', 'the exit status written into the script is that of the first run, the run whose outputs were stored as references')
    ws = p.method('TestGenerator', 'write_script')
    d = None
    for x in ast.walk(ws.node):
        if isinstance(x, ast.Dict):
            for k, v in zip(x.keys, x.values):
                if isinstance(k, ast.Constant) and k.value == 'EXIT_CODE':
                    d = v
    ok = False
    src = None
    if isinstance(d, ast.Name):
        # a local bound once to the value (exit_code = r.exit_code)
        defs = [s_.value for s_ in ast.walk(ws.node) if isinstance(s_, ast.Assign) and any(norm(t) == d.id for t in s_.targets)]
        if len(defs) == 1:
            d = defs[0]
    if isinstance(d, ast.Attribute) and d.attr == 'exit_code' and isinstance(d.value, ast.Name):
        for s in ast.walk(ws.node):
            if isinstance(s, ast.Assign) and any(norm(t) == d.value.id for t in s.targets):
                src = norm(s.value)
        ok = src == 'self.results[1]'
    run.ob('C12-EXITCODE', 'write_script:EXIT_CODE', ok, 'EXIT_CODE = %s with %s' % (norm(d) if d is not None else None, src), fn=ws)
    # and the reference files come from run 1 too
    refs = [norm(s.value) for s in ast.walk(ws.node) if isinstance(s, ast.Assign) and any(norm(t) == 'reference_files' for t in s.targets)]
    run.ob('C12-EXITCODE', 'write_script:reference_files', refs == ['self.reference_files[1]'], 'tested files are those of run 1: %s' % refs, fn=ws, nontrivial=False)
    run.floor('C12-EXITCODE', 2, 2)


def unique(run, p):
    run.rule('C12-UNIQUE', 'generated test method names are unique: test_name() records every name it hands out and qualifies a repeat, '
                           'so no test silently replaces another in the class body')
    f = p.method('TestGenerator', 'test_name')
    src = ast.unparse(f.node)
    member = any(isinstance(x, ast.Compare) and isinstance(x.ops[0], ast.In) and 'self.test_names' in norm(x.comparators[0]) for x in ast.walk(f.node))
    added = any(isinstance(x, ast.Call) and norm(x.func) == 'self.test_names.add' for x in ast.walk(f.node))
    run.ob('C12-UNIQUE', '%s::%s' % (f.rel, f.short), member and added,
           'test_name checks membership in self.test_names (%s) and records the name (%s)' % (member, added), fn=f)
    run.floor('C12-UNIQUE', 1, 1)


def strict(run, p):
    run.rule('C12-STRICT', 'the command\'s output is decoded strictly: undecodable bytes make the run report an exception instead of being dropped')
    c = p.cls('ExecuteCommand')
    n = 0
    ec = p.fn(GT + 'exec_command')
    runners = {f.qn: f for f in c.methods.values()}
    for (qn, _ctx) in p.reach([(ec, None)], use_cha=False):
        g = p.funcs[qn]
        if g.mod is ec.mod and (g is ec or g.cls is c):
            runners[g.qn] = g
    for f in [runners[q] for q in sorted(runners)]:
        for x in ast.walk(f.node):
            if isinstance(x, ast.Call) and isinstance(x.func, ast.Attribute) and x.func.attr == 'decode':
                n += 1
                err = next((k.value for k in x.keywords if k.arg == 'errors'), x.args[1] if len(x.args) > 1 else None)
                ok = err is None or (isinstance(err, ast.Constant) and err.value == 'strict')
                run.ob('C12-STRICT', '%s::%s::%s' % (f.rel, f.short, norm(x.func.value)), ok, '%s decodes with errors=%s' % (norm(x)[:50], norm(err) if err is not None else 'strict (default)'), fn=f, node=x)
    fc = p.cls('FilesComparison')
    for name in ('check_file', 'check_string_against_file', 'check_binary_file'):
        f = fc.methods[name]
        for x in ast.walk(f.node):
            if isinstance(x, ast.Call) and getattr(x.func, 'id', '') == 'open':
                n += 1
                err = next((k.value for k in x.keywords if k.arg == 'errors'), None)
                ok = err is None or (isinstance(err, ast.Constant) and err.value == 'strict')
                run.ob('C12-STRICT', '%s::%s::%s' % (f.rel, f.short, norm(x.args[0]) if x.args else '?'), ok,
                       '%s opens %s with errors=%s' % (f.short, norm(x.args[0]) if x.args else '?', norm(err) if err is not None else 'strict (default)'), fn=f, node=x)
    run.floor('C12-STRICT', n, 2)


def exclprov(run, p):
    run.rule('C12-EXCLPROV', 'exclusions come only from what differed between runs or from machine/time-specific strings found in the '
                             'reference: the only store into self.exclusions takes patterns from extract(<lines that differed>), removals '
                             'from one-sided diff lines and substrings from attributes / dates found in flagged lines - never a constant')
    c = p.cls('TestGenerator')
    stores = []
    for f in c.methods.values():
        for s in p.own_nodes(f):
            if isinstance(s, ast.Assign) and any(isinstance(t, ast.Subscript) and norm(t.value) == 'self.exclusions' for t in s.targets):
                stores.append((f, s))
    if len(stores) != 1:
        run.ob('C12-EXCLPROV', 'stores', False, '%d stores into self.exclusions (one on the pinned tree)' % len(stores), fn=c.methods['generate_exclusions'])
        return
    f, s = stores[0]
    v = s.value
    ok = isinstance(v, ast.Tuple) and len(v.elts) == 3 and all(isinstance(e, ast.Name) for e in v.elts)
    det = {}
    if ok:
        rex, rem, sub = [e.id for e in v.elts]
        rclo = dep_closure(f.node, {rex})
        det['patterns'] = 'extract' in rclo and 'common' in rclo
        det['removals'] = rem in dep_closure(f.node, {'exc'}) or 'exc' in dep_closure(f.node, {rem})
        # substrings: every append/extend argument is an attribute lookup or derives from find_specific_*
        good = True
        for x in p.own_nodes(f):
            if isinstance(x, ast.Call) and isinstance(x.func, ast.Attribute) and x.func.attr in ('append', 'extend') and norm(x.func.value) == sub:
                a = x.args[0]
                clo = dep_closure(f.node, names_in(a))
                good = good and not isinstance(a, ast.Constant) and bool(clo & {'getattr', 'self.find_specific_dates', 'self.find_specific_datetimes', 'specifics'})
        det['substrings'] = good
        for x in ast.walk(f.node):
            if isinstance(x, ast.Call) and isinstance(x.func, ast.Attribute) and x.func.attr in ('append', 'extend') and norm(x.func.value) == rex:
                a = x.args[0]
                det['patterns'] = det['patterns'] and not isinstance(a, ast.Constant) and 'extract' in dep_closure(f.node, names_in(a))
        ok = all(det.values())
    run.ob('C12-EXCLPROV', '%s::%s' % (f.rel, f.short), ok, 'self.exclusions[name] = %s; provenance %s' % (norm(v), det), fn=f, node=s)
    # the diff-derived inputs: common = both-sided differing lines, removals = one-sided lines - evaluated with stand-in diffs
    from ..pyeval import Interp, Model, Obj, Unsupported, Raised, FakeFS, pure_sys
    g = c.methods['generate_exclusions_for_file']

    class Pair(Model):
        def __init__(self, l, r, lc, rc):
            self.left_line_num, self.right_line_num, self.left_content, self.right_content = l, r, lc, rc

    class FT(Model):
        text, binary, encoding = True, False, None
    diffs = {2: [Pair(3, 3, 'took 1.5s\n', 'took 2.5s\n'), Pair(5, None, 'only in run 1\n', None), Pair(None, 6, None, 'only in run 2\n')],
             3: [Pair(3, 3, 'took 1.5s\n', 'took 9s\n')]}
    fs = FakeFS({'/r/ref/x/out.txt': 'a\n', '/r/ref/x/2/out.txt': 'a\n', '/r/ref/x/3/out.txt': 'a\n'})
    o = Obj(c)
    o.attrs.update(refdir='/r/ref/x', iterations=3, verbose=False)
    I = Interp(p)
    I.extra_names.update({'os': fs.os(), 'open': fs.open, 'sys': pure_sys()})

    def hook(m, args, kwargs, selfobj):
        if m.name == 'find_diff_lines':
            run_dir = [k for k in diffs if '/%d/' % k in args[1]]
            return True, list(diffs[run_dir[0]]) if run_dir else []
        if m.name == 'protected_readlines':
            return True, ['a\n']
        if m.name == '__init__' and m.cls is not None and m.cls.name == 'FileType':
            return True, None
        if m.name in ('check_for_specific_references',):
            return True, {}
        if m.name == 'update_specifics':
            return True, None
        return False, None
    I.on_call = hook
    try:
        res = I.call(g, ['out.txt'], selfobj=o)
        ft_, exc_ = res
        specifics, common, removals = exc_
    except (Unsupported, Raised, TypeError, ValueError) as e:
        raise AnalysisError('generate_exclusions_for_file is not evaluable: %s' % e)
    want_common = ['took 1.5s\n', 'took 2.5s\n', 'took 1.5s\n', 'took 9s\n']
    want_rem = ['only in run 1\n', 'only in run 2\n']
    ok2 = list(common) == want_common and list(removals) == want_rem
    run.ob('C12-EXCLPROV', '%s::%s' % (g.rel, g.short), ok2,
           'with stand-in differences between run 1 and runs 2, 3: lines that differ on both sides become pattern inputs %r, one-sided '
           'lines become removals %r%s' % (list(common), list(removals), '' if ok2 else ' - expected %r and %r' % (want_common, want_rem)), fn=g)
    run.floor('C12-EXCLPROV', 2, 2)


def cleanset(run, p):
    run.rule('C12-CLEANSET', 'the outputs removed before the command is re-run are exactly the files that are tested: the generated_files list '
                             'is built from every reference file of run 1, unfiltered, the same set the per-file tests are written for')
    g = p.method('TestGenerator', 'generated_file_paths')
    comps = [x for x in ast.walk(g.node) if isinstance(x, (ast.ListComp, ast.GeneratorExp))]
    ok = len(comps) == 1 and norm(comps[0].generators[0].iter) == 'self.reference_files[1]' and not comps[0].generators[0].ifs and len(comps[0].generators) == 1
    run.ob('C12-CLEANSET', '%s::%s' % (g.rel, g.short), ok,
           'generated_file_paths lists %s' % ('every reference file of run 1' if ok else norm(comps[0])[:90] if comps else 'something else'), fn=g)
    rp = p.method('TestGenerator', 'remove_previous_outputs')
    gv = p.method('TestGenerator', 'generated_files_var')
    ok2 = 'self.generated_file_paths(' in ast.unparse(gv.node) and 'cls.generated_files' in ' '.join(
        x.value for x in ast.walk(rp.node) if isinstance(x, ast.Constant) and isinstance(x.value, str))
    run.ob('C12-CLEANSET', 'wiring', ok2, 'generated_files_var renders generated_file_paths(); the remove slot iterates cls.generated_files', fn=gv, nontrivial=False)
    run.floor('C12-CLEANSET', 2, 2)


def filekind(run, p):
    """which kind of assertion a file gets follows from its extension however it is capitalised"""
    from ..pyeval import Interp, Obj, Model, Unsupported, Raised, pure_os
    run.rule('C12-FILEKIND', 'a binary file is compared as bytes: FileType, evaluated on file names whose extension is written in lower '
                             'case, upper case and mixed case (.png .PNG .Png ...), with a detector stand-in that would call anything '
                             'text, classifies every spelling like the lower-case one - an image that is taken for text is compared '
                             'line by line with universal newlines, where CR / LF changes and a lost final newline go unnoticed')
    c = p.cls('FileType')
    f = c.methods['__init__']

    class _Detector(Model):
        done = True
        result = {'confidence': 0.99, 'encoding': 'ascii'}

        def feed(self, line):
            return None

        def close(self):
            return None

    class _Chardet(Model):
        UniversalDetector = _Detector

    def fake_open(path, mode='r', **kw):
        return iter([b'x\n'])
    fake_open._pyeval_model = True

    def kind_of(name):
        o = Obj(c)
        I = Interp(p)
        I.extra_names.update({'os': pure_os(), 'chardet': _Chardet(), 'open': fake_open})
        try:
            I.call(f, ['/w/' + name], {}, selfobj=o)
        except Unsupported as e:
            raise AnalysisError('FileType is not evaluable: %s' % e)
        except Raised as e:
            return 'raises %s' % e
        return (bool(o.attrs.get('binary')), bool(o.attrs.get('text')), bool(o.attrs.get('image')))
    n = 0
    for ext in ('png', 'jpg', 'jpeg', 'gif', 'pdf', 'svg', 'csv', 'txt', 'dat'):
        base = kind_of('chart.' + ext)
        for sp in (ext.upper(), ext.capitalize(), ext[0] + ext[1:].upper()):
            got = kind_of('chart.' + sp)
            n += 1
            run.ob('C12-FILEKIND', 'ext=%s' % sp, got == base,
                   'chart.%s is classified (binary, text, image) = %s, chart.%s = %s' % (sp, got, ext, base), fn=f)
    for ext in ('png', 'jpg', 'gif'):
        base = kind_of('chart.' + ext)
        n += 1
        run.ob('C12-FILEKIND', 'ext=%s:binary' % ext, base == (True, False, True) or (isinstance(base, tuple) and base[0] and not base[1]),
               'chart.%s is classified (binary, text, image) = %s' % (ext, base), fn=f)
    run.floor('C12-FILEKIND', n, 28)
