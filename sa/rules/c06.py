"""C06 - detection flags exactly the violating records and agrees with verification."""
import ast

from .. import tables
from ..flow import GuardMap
from ..model import AnalysisError, norm
from ..specialise import flat
from .common import must_pass, names_in, guard_requires

PCV = 'PandasConstraintVerifier'
FUZZY_PAIR = {'call:fuzzy_greater_than': 'call:df_fuzzy_gt', 'call:fuzzy_less_than': 'call:df_fuzzy_lt'}


def _notnull_of_column(fnode, v):
    """v is pd.notnull(X) / pd.notna(X) / X.notnull() / X.notna() with X the column being checked: self.df[colname], or a
    local bound once to it"""
    x = None
    if isinstance(v, ast.Call) and isinstance(v.func, ast.Attribute) and v.func.attr in ('notnull', 'notna') and not v.keywords:
        if isinstance(v.func.value, ast.Name) and v.func.value.id == 'pd' and len(v.args) == 1:
            x = v.args[0]
        elif not v.args:
            x = v.func.value
    if x is None:
        return False
    if isinstance(x, ast.Name):
        defs = [a for a in ast.walk(fnode) if isinstance(a, ast.Assign) and any(isinstance(t, ast.Name) and t.id == x.id for t in a.targets)]
        if len(defs) != 1:
            return False
        x = defs[0].value
    return norm(x).replace(' ', '') == 'self.df[colname]'


def kinds_and_methods(p):
    """kind -> (verifier Func, detector Func) discovered from the verifiers() registry."""
    f = p.method('BaseConstraintVerifier', 'verifiers')
    pcv = p.cls(PCV)
    out = {}
    for n in ast.walk(f.node):
        if isinstance(n, ast.Dict):
            for k, v in zip(n.keys, n.values):
                if isinstance(k, ast.Constant) and isinstance(v, ast.Attribute):
                    ver = p.lookup_method(pcv.qn, v.attr)
                    if ver is None:
                        raise AnalysisError('verifier %s not found' % v.attr)
                    ver = flat(p, ver, pcv.qn)       # a wrapper over a shared helper / a table-driven arm is read as the body it runs
                    det = None
                    for c in ast.walk(ver.node):
                        if isinstance(c, ast.Call) and isinstance(c.func, ast.Attribute) and \
                                isinstance(c.func.value, ast.Name) and c.func.value.id == 'self' and \
                                c.func.attr.startswith('detect_'):
                            det = p.lookup_method(pcv.qn, c.func.attr)
                            det = flat(p, det, pcv.qn) if det is not None else None
                    out[k.value] = (ver, det)
    if len(out) < 10:
        raise AnalysisError('verifiers() registers %d kinds; 10 on the pinned tree' % len(out))
    return out


def enums(p):
    m = p.mod('tdda.constraints.base')
    out = []
    for name in ('SIGNS', 'PRECISIONS', 'TYPES'):
        try:
            out.append(tuple(p.const(m, name)))
        except AnalysisError:
            pass
    if len(out) < 2:
        raise AnalysisError('enumerations SIGNS/PRECISIONS/TYPES not found in base.py')
    return out


def table_dispatch_loops(p, f, enums_, event):
    """For loops of the shape `for (k, ...) in TABLE: if subject == k: <event>; return` where TABLE is a module-level
    literal whose first components (or dictionary keys) are constants covering one of the declared enumerations
    (apart from members an earlier test of the same subject has dealt with)."""
    out = []
    m = f.mod
    for s in p.own_nodes(f):
        if not (isinstance(s, ast.For) and not s.orelse and len(s.body) == 1 and isinstance(s.body[0], ast.If) and not s.body[0].orelse):
            continue
        it = s.iter
        if isinstance(it, ast.Call) and isinstance(it.func, ast.Attribute) and it.func.attr == 'items':
            it = it.func.value
        if not isinstance(it, ast.Name) or it.id not in m.consts:
            continue
        tab = m.consts[it.id]
        keys = []
        if isinstance(tab, ast.Dict):
            keys = [k.value for k in tab.keys if isinstance(k, ast.Constant)]
        elif isinstance(tab, (ast.Tuple, ast.List)):
            for e in tab.elts:
                if isinstance(e, (ast.Tuple, ast.List)) and e.elts and isinstance(e.elts[0], ast.Constant):
                    keys.append(e.elts[0].value)
        kv = s.target.elts[0] if isinstance(s.target, (ast.Tuple, ast.List)) else s.target
        test = s.body[0].test
        if not (isinstance(kv, ast.Name) and isinstance(test, ast.Compare) and len(test.ops) == 1 and isinstance(test.ops[0], ast.Eq)
                and kv.id in (norm(test.left), norm(test.comparators[0]))):
            continue
        subj = norm(test.comparators[0]) if norm(test.left) == kv.id else norm(test.left)
        body = s.body[0].body
        if not (any(event(b) for b in body) and isinstance(body[-1], (ast.Return, ast.Break))):
            continue
        # members of the enumeration already handled by an explicit test of the same subject earlier in the function
        handled = set()
        for x in p.own_nodes(f):
            if isinstance(x, ast.Compare) and len(x.ops) == 1 and isinstance(x.ops[0], ast.Eq) and x.lineno < s.lineno and \
                    norm(x.left) == subj and isinstance(x.comparators[0], ast.Constant):
                handled.add(x.comparators[0].value)
        if any(set(en) <= set(keys) | handled for en in enums_):
            out.append(s)
    return out


def is_outdf_store(s):
    return tables.pick_store('out_df')(s) is not None


def check(run):
    p = run.prog
    km = kinds_and_methods(p)
    en = enums(p)
    suffix = p.const('tdda.constraints.base', 'CONSTRAINT_SUFFIX_MAP') if False else None
    run.rule('C06-MUSTFLAG', 'every path through every pandas detect_<kind>_constraint stores a flag column into self.out_df '
                             '(an if/elif chain without else counts as exhaustive only over a declared enumeration)')
    run.rule('C06-NULLFLAG', 'every stored flag is a constant (type failure: every record) or detection_field(column, predicate), '
                             'the helper that maps null records to null; max_nulls stores pd.notnull(column)')
    run.rule('C06-AGREE', 'per kind and per arm (precision value / sign class / date / incompatible type) the row predicate of the '
                          'detector is the verifier\'s aggregate predicate with the same comparator')
    for kind, (ver, det) in sorted(km.items()):
        if det is None:
            run.ob('C06-MUSTFLAG', 'kind:%s' % kind, False, 'verifier %s never calls a detector' % ver.short, fn=ver)
            continue
        if det.cls.name != 'PandasConstraintDetector':
            raise AnalysisError('detector for %s resolves to %s' % (kind, det.qn))
        disp = table_dispatch_loops(p, det, en, is_outdf_store)
        bad = must_pass(det, lambda st, disp=disp: is_outdf_store(st) or st in disp, enums=en)
        if disp:
            run.note('C06-MUSTFLAG', '%s dispatches through a table whose keys cover a declared enumeration; the loop is taken as exhaustive' % det.short, fn=det)
        if not bad:
            run.ob('C06-MUSTFLAG', '%s::%s' % (det.rel, det.short), True, 'every path stores the %s flag' % kind, fn=det)
        for k, node, atoms in bad:
            run.ob('C06-MUSTFLAG', '%s::%s::exit[%s]' % (det.rel, det.short, atoms[:80]), False,
                   '%s can finish without writing its flag column (path: %s)' % (det.short, atoms or 'unconditional'),
                   fn=det, node=node if hasattr(node, 'lineno') else None)
        # column name uses this kind
        names = [n for n in ast.walk(det.node) if isinstance(n, ast.Call) and getattr(n.func, 'id', '') == 'verification_field']
        okname = bool(names) and all(len(n.args) == 2 and isinstance(n.args[1], ast.Constant) and n.args[1].value == kind for n in names)
        run.ob('C06-MUSTFLAG', '%s::%s::column-kind' % (det.rel, det.short), okname,
               'flag column is named for kind %r: %s' % (kind, [norm(n) for n in names]), fn=det, nontrivial=False)
        # NULLFLAG
        seen_stores = set()
        for lab, marks, comp, s in tables.table(det.node, tables.pick_store('out_df'), consts=det.mod.consts):
            s = getattr(s, '_store', s)
            if id(s) in seen_stores:
                continue
            seen_stores.add(id(s))
            v = s.value
            ok = False
            why = norm(v)
            if isinstance(v, ast.Constant) and v.value is False:
                ok = True
            elif isinstance(v, ast.Call) and getattr(v.func, 'id', '') == 'detection_field' and len(v.args) >= 2:
                ok = True
            elif kind == 'max_nulls' and _notnull_of_column(det.node, v):
                ok = True
            run.ob('C06-NULLFLAG', '%s::%s::%s' % (det.rel, det.short, '|'.join(lab)), ok,
                   'flag value %s' % why, fn=det, node=s)
        agree(run, p, kind, ver, det)
    run.floor('C06-MUSTFLAG', len(km), 10)
    run.floor('C06-AGREE', sum(1 for o in run.obs if o.rule == 'C06-AGREE'), 19)
    run.attempt(outfile, run, p)
    run.attempt(inplace, run, p)
    run.attempt(aligned, run, p)
    run.attempt(detected, run, p)
    from .c02 import fuzz_shape
    fuzz_shape(run, p, 'C06-AGREE')     # the record-level fuzzy comparators use the same fuzz_down / fuzz_up as the aggregate ones
    run.rules['C06-AGREE'] += '; the record-level fuzzy comparators df_fuzzy_gt / df_fuzzy_lt have the shape of the aggregate ones (a op b or a op fuzz_down/up(b, epsilon))'
    run.attempt(vername, run, p, km)
    run.attempt(sibling_ctor, run, p)
    from .c09 import sameprep
    run.attempt(sameprep, run, p, 'C06-SAMEPREP')
    from .c17 import rownum
    run.attempt(rownum, run, p)
    run.rules['C06-ROWNUM'] = run.rules.pop('C17-ROWNUM')
    for o in run.obs:
        if o.rule == 'C17-ROWNUM':
            o.rule = 'C06-ROWNUM'
    run.floors = [(('C06-ROWNUM' if r == 'C17-ROWNUM' else r), c, m) for r, c, m in run.floors]
    from .. import ief, triage
    run.attempt(ief.run_ief, run, 'C06', [p.fn('detect_df')], triage=triage.IEF)
    run.floor('C06-IEF', run.units.get('ief_functions_checked', 0), 80)


def agree(run, p, kind, ver, det):
    vt = tables.table(ver.node, tables.pick_result('result'))
    dt = tables.table(det.node, tables.pick_store('out_df'), consts=det.mod.consts)
    dmap = {}
    for lab, marks, comp, s in dt:
        dmap.setdefault(lab, []).append((marks, comp, s))
    if kind in ('min', 'max', 'min_length', 'max_length', 'sign'):
        if not vt:
            raise AnalysisError('%s assigns no `result`: decision table not interpretable' % ver.short)
        for lab, marks, comp, s in vt:
            if lab == ('incompat',):
                continue          # the verifier's incompatibility arms have no record-level counterpart obligation
            rows = dmap.get(lab)
            key = '%s::%s::arm[%s]' % (det.rel, det.short, '|'.join(lab))
            if not rows:
                run.ob('C06-AGREE', key, False, 'verifier arm %s (%s) has no arm in %s' % (lab, comp, det.short), fn=det)
                continue
            want = FUZZY_PAIR.get(comp, comp)
            for dmarks, dcomp, ds in rows:
                ok = dcomp == want and (('date' in marks) == ('date' in dmarks))
                run.ob('C06-AGREE', key, ok,
                       '%s arm %s: verifier decides `%s`%s, detector flags `%s`%s'
                       % (kind, '|'.join(lab), comp, ' (also for dates)' if 'date' in marks else '',
                          dcomp, ' (also for dates)' if 'date' in dmarks else ''), fn=det, node=ds)
        return
    # specification rows for the remaining kinds
    stores = [s for lab, marks, comp, s in dt]
    txt = [norm(s.value).replace(' ', '') for s in stores]
    key = '%s::%s::spec' % (det.rel, det.short)
    if kind == 'type':
        ok = bool(stores) and all(isinstance(s.value, ast.Constant) and s.value.value is False for s in stores)
        run.ob('C06-AGREE', key, ok, 'a type failure flags every record false: %s' % txt, fn=det)
    elif kind == 'max_nulls':
        ok = bool(stores) and all('notnull(' in t or 'notna(' in t for t in txt)
        run.ob('C06-AGREE', key, ok, 'a null-count failure flags the null records: %s' % txt, fn=det)
    elif kind == 'no_duplicates':
        src = ast.unparse(det.node).replace(' ', '')
        ok = 'duplicated(' in src and 'keep=False' in src and '~' in src
        run.ob('C06-AGREE', key, ok, 'a duplicates failure flags every member of a duplicated group (duplicated(keep=False), negated)', fn=det)
    elif kind in ('allowed_values', 'rex'):
        # every arm of the detector flags by membership in the violations; an arm that flags every record (a column of the wrong
        # type) is in agreement only if the verifier, too, fails such a column outright before it looks at values
        ver_type_guard = any(isinstance(n, ast.If) and 'tdda_type' in norm(n.test) and "'string'" in norm(n.test) and
                             any(isinstance(r, ast.Return) and isinstance(r.value, ast.Constant) and r.value.value is False for r in n.body)
                             for n in ast.walk(ver.node))
        by_member = [t for t in txt if '~c.isin(violations)' in t or '~c.isin(set(violations))' in t]
        blanket = [s_ for s_ in stores if isinstance(s_.value, ast.Constant) and s_.value.value is False]
        other = [t for s_, t in zip(stores, txt) if t not in by_member and s_ not in blanket]
        ok = bool(by_member) and not other and (not blanket or ver_type_guard)
        why = ''
        if blanket and not ver_type_guard:
            why = '; one arm flags every record of a column that is not text, while the verifier judges such a column by its values'
        run.ob('C06-AGREE', key, ok, '%s flags exactly the records whose value is among the violations the verifier computed: %s%s' % (kind, txt, why),
               fn=det, node=blanket[0] if (blanket and not ver_type_guard) else None)


def outfile(run, p):
    run.rule('C06-OUTFILE', 'base.verify empties and removes the detection output path unconditionally (whenever one is given) before any '
                            'verifier runs, and the record writer is called only under results.failures > 0')
    f = p.fn('tdda.constraints.base.verify')
    loop = None
    pre = None
    for i, s in enumerate(f.node.body):
        # the loop in which verifiers run: it calls the looked-up verifier itself, or hands the verifiers table to a helper
        if isinstance(s, ast.For) and loop is None and any(
                isinstance(x, ast.Call) and ((isinstance(x.func, ast.Name) and x.func.id == 'verify') or norm(x.func) == 'verifiers.get' or
                                             any(isinstance(a, ast.Name) and a.id == 'verifiers' for a in list(x.args) + [k.value for k in x.keywords]))
                for x in ast.walk(s)):
            loop = (i, s)
        if isinstance(s, ast.If) and 'detect_outpath' in names_in(s.test) and loop is None:
            pre = (i, s)
    if loop is None:
        raise AnalysisError('base.verify: verifier loop not found')
    ok_open = ok_rm = False
    if pre is not None:
        for s in pre[1].body:           # top level of the arm = unconditional within it
            for x in ast.walk(s) if isinstance(s, (ast.With, ast.Expr, ast.Assign)) else []:
                if isinstance(x, ast.Call):
                    n = ast.unparse(x.func)
                    if n == 'open' and x.args and 'detect_outpath' in names_in(x.args[0]) and len(x.args) > 1 \
                            and isinstance(x.args[1], ast.Constant) and 'w' in x.args[1].value:
                        ok_open = True
                    if n in ('os.remove', 'os.unlink') and x.args and 'detect_outpath' in names_in(x.args[0]):
                        ok_rm = True
    run.ob('C06-OUTFILE', '%s::%s::pre-emptive-remove' % (f.rel, f.short),
           pre is not None and pre[0] < loop[0] and ok_open and ok_rm,
           'before the verifier loop: `if detect_outpath:` arm found=%s, truncating open=%s, unconditional remove=%s'
           % (pre is not None, ok_open, ok_rm), fn=f, node=pre[1] if pre else f.node)
    gm = GuardMap(f.node)
    n = 0
    for x in p.own_nodes(f):
        if isinstance(x, ast.Call) and isinstance(x.func, ast.Name) and x.func.id == 'detected_records_writer':
            n += 1
            ch = gm.chain(x) or ()
            ok = False
            for g in ch:
                if g.kind == 'if' and g.pol:
                    for c in ast.walk(g.test):
                        if isinstance(c, ast.Compare) and 'failures' in ast.unparse(c.left) and len(c.ops) == 1 and \
                                isinstance(c.ops[0], ast.Gt) and isinstance(c.comparators[0], ast.Constant) and c.comparators[0].value == 0:
                            ok = True
            run.ob('C06-OUTFILE', '%s::%s::writer-guard' % (f.rel, f.short), ok,
                   'record writer called under [%s]' % ' & '.join(g.text() for g in ch), fn=f, node=x)
    if n == 0:
        raise AnalysisError('base.verify no longer calls detected_records_writer')
    # the writer itself: save only under a given outpath
    w = p.method('PandasConstraintDetector', 'write_detected_records')
    gm = GuardMap(w.node)
    for x in p.own_nodes(w):
        if isinstance(x, ast.Call) and isinstance(x.func, ast.Name) and x.func.id == 'save_df':
            ch = gm.chain(x) or ()
            ok = any(g.kind == 'if' and g.pol and 'detect_outpath' in names_in(g.test) for g in ch)
            run.ob('C06-OUTFILE', '%s::%s::save-guard' % (w.rel, w.short), ok,
                   'save_df called under [%s]' % ' & '.join(g.text() for g in ch), fn=w, node=x)
    run.floor('C06-OUTFILE', 3, 3)


def inplace(run, p):
    run.rule('C06-INPLACE', 'every store into the input frame (self.df[...] = / inplace=True on self.df) in a function reachable from '
                            'detect_df is control-dependent on detect_in_place; and the detection frame is built on a copy of the input '
                            'frame\'s index (pandas shares the Index object otherwise, and naming it would rename the caller\'s)')
    seen = p.reach([p.fn('detect_df')])
    done = set()
    n = 0
    for (qn, ctx) in seen:
        if qn in done:
            continue
        done.add(qn)
        f = p.funcs[qn]
        if f.mod.name != 'tdda.constraints.pd.constraints':
            continue
        gm = None
        for x in p.own_nodes(f):
            tgt = None
            if isinstance(x, ast.Assign):
                for t in x.targets:
                    if isinstance(t, ast.Subscript) and norm(t.value) == 'self.df':
                        tgt = x
            if isinstance(x, ast.Call) and isinstance(x.func, ast.Attribute) and norm(x.func.value) == 'self.df' and \
                    (any(k.arg == 'inplace' and isinstance(k.value, ast.Constant) and k.value.value for k in x.keywords)
                     or x.func.attr in ('insert', 'pop', 'update')):
                tgt = x
            if tgt is None:
                continue
            n += 1
            if gm is None:
                gm = GuardMap(f.node)
            ch = gm.chain(tgt) or ()
            ok = any(g.kind == 'if' and guard_requires(g.test, g.pol, lambda e, pol: pol and 'detect_in_place' in names_in(e))
                     for g in ch)
            run.ob('C06-INPLACE', '%s::%s::%s' % (f.rel, f.short, norm(tgt)[:60]), ok,
                   'store into the caller\'s frame `%s` under [%s]' % (norm(tgt)[:60], ' & '.join(g.text() for g in ch if g.kind == 'if')),
                   fn=f, node=tgt)
    # the index is part of the caller's frame too: pandas shares an Index object between frames built on it, so a frame built
    # on df.index must be built on a copy before anything is stored into that index (its name, its names)
    ni = 0
    for f in p.funcs.values():
        if f.mod.name != 'tdda.constraints.pd.constraints' or f.cls is None or f.cls.name != 'PandasConstraintDetector':
            continue
        nodes = list(p.own_nodes(f))
        binds = {}
        for x in nodes:
            if isinstance(x, ast.Assign) and len(x.targets) == 1 and isinstance(x.targets[0], ast.Name):
                binds.setdefault(x.targets[0].id, []).append(x.value)

        def copied(e):
            if isinstance(e, ast.Call) and isinstance(e.func, ast.Attribute) and e.func.attr in ('copy', 'deepcopy', 'rename', 'set_names'):
                return True
            if isinstance(e, ast.Call) and norm(e.func) in ('copy.copy', 'copy.deepcopy', 'pd.Index', 'pd.RangeIndex', 'pd.MultiIndex.from_tuples'):
                return True
            if isinstance(e, ast.Name) and e.id in binds:
                return all(copied(v) for v in binds[e.id])
            return False
        for x in nodes:
            if not (isinstance(x, ast.Call) and norm(x.func) in ('pd.DataFrame', 'DataFrame', 'pandas.DataFrame')):
                continue
            ix = next((k.value for k in x.keywords if k.arg == 'index'), None)
            if ix is None or not any(isinstance(y, ast.Attribute) and y.attr == 'index' for y in ast.walk(ix)) and not isinstance(ix, ast.Name):
                continue
            ni += 1
            own = copied(ix)
            stores = [y for y in nodes if isinstance(y, ast.Assign) and any(isinstance(t, ast.Attribute) and t.attr in ('name', 'names') and
                                                                            ((isinstance(t.value, ast.Attribute) and t.value.attr == 'index') or
                                                                             (isinstance(ix, ast.Name) and isinstance(t.value, ast.Name) and t.value.id == ix.id))
                                                                            for t in y.targets)]
            ok = own or not stores
            run.ob('C06-INPLACE', '%s::%s::index-of-the-detection-frame' % (f.rel, f.short), ok,
                   'the detection frame is built on %s: %s' % (norm(ix)[:40], 'a copy of the input frame\'s index' if own else
                                                               ('the input frame\'s own Index object, and nothing is stored into it' if ok else
                                                                'the input frame\'s own Index object, and `%s` then renames it in the caller\'s frame as well' % norm(stores[0])[:50])),
                   fn=f, node=stores[0] if stores and not ok else x)
    run.floor('C06-INPLACE', n + ni, 5)


_REINDEXING = ('reset_index', 'sort_values', 'sort_index', 'set_index', 'reindex', 'sample')


def aligned(run, p):
    run.rule('C06-ALIGNED', 'the records reported as failing are the records that fail: pandas selects rows by a boolean mask, and assigns a '
                            'Series to a column, by index *label*.  In the detection module (a) a row selection F[mask] whose mask was '
                            'computed in an earlier statement has no re-indexing of F in between - in place (reset_index / sort_* / '
                            'set_index with inplace=True, F.index = ...) on F or on a name that may be the same frame (plain copies '
                            'followed), or by rebinding F to a re-indexed frame; (b) no Series is built from positional values without '
                            'index=, because it would carry a fresh 0..n-1 index and be matched to the records by those labels; (c) frames are never put side by '
                            'side with join / merge / concat(axis=1), which pair rows by label and multiply rows whose labels repeat (columns '
                            'are copied with insert / assignment, which keep the row set)')
    m = p.mod('tdda.constraints.pd.constraints')
    nsel = nser = 0
    for f in p.funcs.values():
        if f.mod is not m:
            continue
        nodes = list(p.own_nodes(f))
        # plain copies: names that may denote the same frame
        same = {}
        for x in nodes:
            if isinstance(x, ast.Assign) and isinstance(x.value, ast.Name):
                for t in x.targets:
                    if isinstance(t, ast.Name):
                        same.setdefault(t.id, set()).add(x.value.id)
                        same.setdefault(x.value.id, set()).add(t.id)

        def aliases(nm):
            out, todo = {nm}, [nm]
            while todo:
                for o in same.get(todo.pop(), ()):
                    if o not in out:
                        out.add(o)
                        todo.append(o)
            return out
        masks = {}
        for x in nodes:
            if isinstance(x, ast.Assign) and len(x.targets) == 1 and isinstance(x.targets[0], ast.Name) and \
                    any(isinstance(y, ast.Compare) or (isinstance(y, ast.Call) and isinstance(y.func, ast.Attribute) and y.func.attr in ('isin', 'isnull', 'notnull', 'isna', 'notna'))
                        for y in ast.walk(x.value)) and not isinstance(x.value, (ast.ListComp, ast.IfExp, ast.BoolOp)):
                masks.setdefault(x.targets[0].id, []).append(x)
        for x in nodes:
            if not (isinstance(x, ast.Subscript) and isinstance(x.value, ast.Name)):
                continue
            sl = x.slice
            while isinstance(sl, ast.UnaryOp):
                sl = sl.operand
            if isinstance(sl, (ast.Compare, ast.Call)) and any(isinstance(y, ast.Name) and y.id == x.value.id for y in ast.walk(sl)):
                nsel += 1               # mask computed from the frame in the selection itself
                continue
            if not (isinstance(sl, ast.Name) and sl.id in masks):
                continue
            nsel += 1
            F = x.value.id
            al = aliases(F)
            made = max((d.lineno for d in masks[sl.id] if d.lineno < x.lineno), default=None)
            if made is None:
                continue
            bad = None
            for y in nodes:
                if not (made < getattr(y, 'lineno', 0) <= x.lineno) or y is x:
                    continue
                if isinstance(y, ast.Call) and isinstance(y.func, ast.Attribute) and y.func.attr in _REINDEXING and isinstance(y.func.value, ast.Name) \
                        and y.func.value.id in al and any(k.arg == 'inplace' and isinstance(k.value, ast.Constant) and k.value.value is True for k in y.keywords):
                    bad = y
                if isinstance(y, ast.Assign) and any(isinstance(t, ast.Attribute) and t.attr == 'index' and isinstance(t.value, ast.Name) and t.value.id in al for t in y.targets):
                    bad = y
                if isinstance(y, ast.Assign) and any(isinstance(t, ast.Name) and t.id == F for t in y.targets) and y.lineno < x.lineno and \
                        any(isinstance(z, ast.Call) and isinstance(z.func, ast.Attribute) and z.func.attr in _REINDEXING for z in ast.walk(y.value)):
                    bad = y
            run.ob('C06-ALIGNED', '%s::%s::%s[%s]' % (f.rel, f.short, F, sl.id), bad is None,
                   '%s[%s]: the mask is computed at line %d%s' % (F, sl.id, made, ' and nothing re-indexes %s before the selection' % F if bad is None else
                                                                  '; `%s` at line %d then gives %s other labels, so the mask selects by labels that no longer name the same records' % (
                                                                      norm(bad)[:60], bad.lineno, F)), fn=f, node=bad or x)
        for x in nodes:
            if isinstance(x, ast.Call) and norm(x.func) in ('pd.Series', 'Series', 'pandas.Series'):
                nser += 1
                first = x.args[0] if x.args else None
                ok = any(k.arg == 'index' for k in x.keywords) or len(x.args) >= 2 or isinstance(first, ast.Dict) or first is None
                run.ob('C06-ALIGNED', '%s::%s::%s' % (f.rel, f.short, norm(x)[:40]), ok,
                       '%s %s' % (norm(x)[:60], 'carries the index it is given' if ok else 'is built from positional values without index=: it is labelled 0..n-1, and '
                                  'assigning it to a column of the detection frame matches it to the records by those labels'), fn=f, node=x)
        for x in nodes:
            lab = None
            if isinstance(x, ast.Call) and isinstance(x.func, ast.Attribute) and x.func.attr in ('join', 'merge') and not isinstance(x.func.value, ast.Constant):
                # the receiver must be a frame (sep.join(df.columns) joins strings): a name or attribute called df / ..._df, or rows of one
                recv = [x.func.value] + ([] if x.func.attr == 'join' else list(x.args))
                ids = {y.id for z in recv for y in ast.walk(z) if isinstance(y, ast.Name)} | \
                      {y.attr for z in recv for y in ast.walk(z) if isinstance(y, ast.Attribute)}
                if any(i == 'df' or i.endswith('_df') for i in ids) and not any(isinstance(y, ast.Attribute) and y.attr in ('columns', 'str') for y in ast.walk(x.func.value)):
                    lab = x
            if isinstance(x, ast.Call) and norm(x.func) in ('pd.merge', 'pd.concat', 'pandas.merge', 'pandas.concat') and \
                    (norm(x.func).endswith('merge') or any(k.arg == 'axis' and isinstance(k.value, ast.Constant) and k.value.value in (1, 'columns') for k in x.keywords)):
                lab = x
            if lab is not None:
                nser += 1
                run.ob('C06-ALIGNED', '%s::%s::%s' % (f.rel, f.short, norm(lab)[:40]), False,
                       '%s puts frames side by side by index label: every row is paired with every row carrying the same label, so with '
                       'repeated labels the detection frame gains rows and joins the flags of one record to the fields of another' % norm(lab)[:70], fn=f, node=lab)
    run.units['row_selections_examined'] = nsel
    run.units['series_constructions_examined'] = nser
    run.floor('C06-ALIGNED', nsel, 2)


def detected(run, p):
    from ..pyeval import Interp, Obj, Unsupported, Raised
    run.rule('C06-DETECTED', 'what detection produced is what detected() hands back: PandasDetection.detected(), evaluated, returns '
                             'the detection frame whenever there is a detection - also when it holds no failing record (write_all keeps '
                             'every record, with n_failures 0) - and None only when there is none')
    c = p.cls('PandasDetection')
    f = p.lookup_method(c.qn, 'detected')
    if f is None:
        raise AnalysisError('PandasDetection.detected vanished')
    n = 0
    for nfail, npass in ((0, 5), (2, 3), (5, 0), (0, 0)):
        det = Obj(p.cls('Detection'))
        det.attrs.update(obj='<frame>', n_passing_records=npass, n_failing_records=nfail)
        o = Obj(c)
        o.attrs['detection'] = det
        try:
            got = Interp(p).call(f, [], {}, selfobj=o)
        except Unsupported as e:
            raise AnalysisError('detected() is not evaluable: %s' % e)
        except Raised as e:
            got = 'raises %s' % e
        n += 1
        run.ob('C06-DETECTED', 'failing=%d,passing=%d' % (nfail, npass), got == '<frame>',
               'a detection with %d failing and %d passing records: detected() returns %s' % (nfail, npass, 'its frame' if got == '<frame>' else repr(got)), fn=f)
    o = Obj(c)
    o.attrs['detection'] = None
    try:
        got = Interp(p).call(f, [], {}, selfobj=o)
    except (Unsupported, Raised) as e:
        got = 'raises %s' % e
    n += 1
    run.ob('C06-DETECTED', 'no-detection', got is None, 'no detection: detected() returns %r' % (got,), fn=f)
    run.floor('C06-DETECTED', n, 5)


def vername(run, p, km):
    from ..pyeval import Interp, Unsupported
    run.rule('C06-VERNAME', 'the name a flag column is written under is a name the output stage recognises as a flag column of that '
                            'field: for every constraint kind, is_ver_field(verification_field(f, kind), f) holds (also with a '
                            'disambiguating _<n> suffix and for field names that contain underscores or end in digits), and an '
                            'unrelated column is not taken for one - evaluated on the two functions and the suffix table')
    I = Interp(p)
    vf = p.fn('tdda.constraints.pd.constraints.verification_field')
    iv = p.fn('tdda.constraints.pd.constraints.is_ver_field')
    n = 0
    for kind in sorted(km):
        for field in ('f', 'a_b', 'x2', 'min'):
            for suffix in ('', '_2'):
                n += 1
                key = 'kind=%s,field=%s%s' % (kind, field, ',disambiguated' if suffix else '')
                try:
                    name = I.call(vf, [field, kind]) + suffix
                    ok = I.call(iv, [name, field]) is True
                    msg = 'verification_field(%r, %r) = %r is %s by is_ver_field' % (field, kind, name, 'recognised' if ok else 'NOT recognised')
                except Unsupported as e:
                    raise AnalysisError('flag-name helpers not evaluable: %s' % e)
                except (KeyError, TypeError) as e:
                    ok, msg = False, 'verification_field(%r, %r) fails with %s' % (field, kind, type(e).__name__)
                run.ob('C06-VERNAME', key, ok, msg, fn=iv)
    for name, field in (('f_other', 'f'), ('fmin_ok', 'f'), ('f_min_ok_x', 'f'), ('g_min_ok', 'f')):
        n += 1
        r = I.call(iv, [name, field])
        run.ob('C06-VERNAME', 'not-a-flag:%s/%s' % (name, field), not r, 'is_ver_field(%r, %r) = %r' % (name, field, r), fn=iv, nontrivial=False)
    run.floor('C06-VERNAME', n, 80)


def sibling_ctor(run, p):
    run.rule('C06-SAMESETUP', 'detection is verification plus flags: detect_df builds its PandasConstraintVerifier with exactly the '
                              'keywords verify_df does (epsilon, type_checking, ...), each from its own parameter of the same name, and '
                              'every named option either entry point passes on to .verify/.detect is a named parameter further down '
                              '(not swallowed by a bare **kwargs)')
    fs = {n: p.fn('tdda.constraints.pd.constraints.' + n) for n in ('verify_df', 'detect_df')}
    kws = {}
    for n, f in fs.items():
        def ctor_calls_of(g):
            return [x for x in p.own_nodes(g) if isinstance(x, ast.Call) and norm(x.func).split('.')[-1] == 'PandasConstraintVerifier']
        calls = [(c_, f, None) for c_ in ctor_calls_of(f)]
        if not calls:
            # a set-up helper of the module, shared or not, builds the verifier: the entry point's keywords reach it through the helper's
            for x, ts, _k in p.calls(f):
                for g, _ctx in ts:
                    if g.mod is f.mod and g.cls is None and g is not f and isinstance(x, ast.Call):
                        calls += [(c_, g, x) for c_ in ctor_calls_of(g)]
        if len(calls) != 1:
            raise AnalysisError('%s constructs %d verifiers' % (n, len(calls)))
        c, owner, via = calls[0]
        kws[n] = {k.arg: k.value for k in c.keywords if k.arg}
        for k, v in sorted(kws[n].items()):
            ok = isinstance(v, ast.Name) and v.id == k and k in owner.params
            if ok and via is not None:
                # and the entry point hands its own parameter of that name to the helper
                given = {kw.arg: kw.value for kw in via.keywords if kw.arg}
                pos = dict(zip(owner.posparams, via.args))
                e = given.get(k, pos.get(k))
                ok = isinstance(e, ast.Name) and e.id == k and k in f.params
            run.ob('C06-SAMESETUP', '%s::%s::%s=' % (f.rel, n, k), ok, '%s passes %s=%s to the verifier' % (n, k, norm(v)), fn=f, node=c,
                   nontrivial=False)
    a, b = set(kws['verify_df']), set(kws['detect_df'])
    run.ob('C06-SAMESETUP', 'verifier-keywords', a == b,
           'verify_df configures the verifier with %s, detect_df with %s%s' % (sorted(a), sorted(b), '' if a == b else
                                                                              ': %s not given to the detection verifier' % sorted(a ^ b)),
           fn=fs['detect_df'])
    # keywords handed to .verify / .detect must be named somewhere down the chain
    bv = p.method('BaseConstraintVerifier', 'detect')
    bvv = p.method('BaseConstraintVerifier', 'verify')
    ver = p.method('Verification', '__init__')
    wr = p.method('PandasConstraintDetector', 'write_detected_records')
    vf = p.fn('tdda.constraints.base.verify')
    named = set(bv.params) | set(bvv.params) | set(ver.params) | set(vf.params) | set(wr.params) | \
        {x[len('detect_'):] for x in wr.params if x.startswith('detect_')}
    n = 0
    for nme, f in fs.items():
        for x in p.own_nodes(f):
            if isinstance(x, ast.Call) and isinstance(x.func, ast.Attribute) and x.func.attr in ('verify', 'detect'):
                for k in x.keywords:
                    if k.arg:
                        n += 1
                        run.ob('C06-SAMESETUP', '%s::%s::.%s(%s=)' % (f.rel, nme, x.func.attr, k.arg), k.arg in named,
                               '%s passes %s= to .%s, which %s' % (nme, k.arg, x.func.attr, 'is a named parameter on the chain' if k.arg in named
                                                                   else 'only **kwargs absorbs: the option has no effect'), fn=f, node=x, nontrivial=False)
    run.floor('C06-SAMESETUP', n, 10)
