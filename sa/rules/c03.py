"""C03 - every example string is matched by one of the regular expressions rexpy returns."""
import ast
import re
import re._parser as sre_parse
import re._constants as C

from ..flow import Walker, World
from ..model import AnalysisError, norm
from ..pyeval import Interp, Obj, Unsupported, Raised
from .. import reglang

RX = 'tdda.rexpy.rexpy.'
PY_DIALECTS = (None, 'portable', 'grep')        # output interpreted as Python regular expressions
EXTRA_CONFIGS = [None, '_', '.', '-', '_.', '_-', '.-', '_.-']
_ALL = None


def all_chars():
    global _ALL
    if _ALL is None:
        _ALL = ''.join(chr(i) for i in range(0x110000) if not (0xD800 <= i <= 0xDFFF))
    return _ALL


_cs_cache = {}


def charset(regex, flags):
    """Set of single characters the regex matches in full."""
    k = (regex, flags)
    if k not in _cs_cache:
        r = re.compile('(?:%s)' % regex, flags)
        out = set()
        for m in r.finditer(all_chars()):
            if m.end() - m.start() == 1:
                out.add(m.group(0))
        _cs_cache[k] = frozenset(out)
    return _cs_cache[k]


def interp(p):
    I = Interp(p)

    def hook(m, args, kwargs, selfobj):
        if m.name in ('cre', 'poss_term_cre'):
            return True, ('#compiled', args[0] if args else None)
        return False, None
    I.on_call = hook
    return I


def categories(p, I, extra, dialect=None):
    c = p.cls('Categories')
    o = Obj(c)
    try:
        I.call(c.methods['__init__'], [extra], {'dialect': dialect}, o)
    except Unsupported as e:
        raise AnalysisError('Categories.__init__ not interpretable: %s' % e)
    return {k: v.attrs.get('re_string') for k, v in o.attrs.items() if isinstance(v, Obj) and 're_string' in v.attrs}, o


def check(run):
    p = run.prog
    from . import rexpy_eval
    run.attempt(rexpy_eval.run_rule, run, p, 'C03')
    run.attempt(loop, run, p)
    I = interp(p)
    flags = p.const('tdda.rexpy.rexpy', 'RE_FLAGS')
    run.attempt(klass, run, p, I, flags)
    run.attempt(dialect, run, p, I, flags)
    run.attempt(esc, run, p)
    run.attempt(bracket, run, p, I, flags, 'C03')
    run.attempt(widen, run, p, I)
    run.attempt(engine, run, p)
    run.attempt(catsync, run, p)
    run.attempt(evidence, run, p)
    run.attempt(discard, run, p)
    run.attempt(wspad, run, p)
    from .. import ief, triage
    run.attempt(ief.run_ief, run, 'C03', [p.fn(RX + 'extract'), p.fn(RX + 'pdextract'), p.method('Extractor', '__init__')], triage=triage.IEF, selfattr=True)
    run.floor('C03-IEF', run.units.get('ief_functions_checked', 0), 60)
    run.trust('the interpreter\'s re module defines which characters a class such as \\d or [^\\W_] matches')


# ---------------------------------------------------------------------------
class _Fresh(Walker):
    def init_state(self):
        return 'none'

    def transfer(self, s, ws):
        st = None
        for n in ast.walk(s) if isinstance(s, (ast.Assign, ast.Expr, ast.AugAssign)) else []:
            if isinstance(s, ast.Assign) and any(norm(t) == 'self.results' for t in s.targets) and \
                    isinstance(s.value, ast.Call) and norm(s.value.func) == 'self.batch_extract':
                st = 'FRESH'
            if isinstance(n, ast.Call) and isinstance(n.func, ast.Attribute) and norm(n.func).startswith('self.examples.') \
                    and n.func.attr in ('extend', 'append', 'update', 'add', 'insert'):
                st = 'STALE'
        if isinstance(s, ast.Assign) and any(norm(t).startswith('self.examples') for t in s.targets):
            st = 'STALE'
        if st is None:
            return ws
        return [World(w.asg, w.atoms, w.weak, st if not (st == 'STALE' and w.state == 'none') else w.state) for w in ws]


def loop(run, p):
    run.rule('C03-LOOP', 'Extractor.extract never leaves its sample/extract/check/extend loop with stale results: on every path to the '
                         'code after the loop the last event is `self.results = self.batch_extract()`, not an extension of the working examples')
    f = p.method('Extractor', 'extract')
    w = _Fresh(f.node, f.params)
    # observe the state in which the statement after the loop is reached
    whiles = [s for s in ast.walk(f.node) if isinstance(s, ast.While)]
    if not whiles:
        raise AnalysisError('Extractor.extract has no sampling loop any more')
    stale = []
    # observed where the results are used once the loop is over: a statement after the loop that reads self.results (or hands over
    # to a method of the extractor that does) reached in the state STALE, and every exit of the function.  (The loop itself may be
    # left stale when what follows re-extracts first: `if not all_matched: self.results = self.batch_extract()`.)
    last_loop_line = max(getattr(x, 'lineno', 0) for wl in whiles for x in ast.walk(wl))
    orig_transfer = w.transfer

    def transfer_hook(s, ws):
        if getattr(s, 'lineno', 0) > last_loop_line and not (isinstance(s, ast.Assign) and isinstance(s.value, ast.Call)
                                                             and norm(s.value.func) == 'self.batch_extract'):
            uses = any(isinstance(n, ast.Attribute) and norm(n) == 'self.results' and isinstance(n.ctx, ast.Load) for n in ast.walk(s)) or \
                any(isinstance(n, ast.Call) and norm(n.func) in ('self.add_warnings', 'self.convert_rex_to_dialect') for n in ast.walk(s))
            if uses and not isinstance(s, (ast.If, ast.While, ast.For, ast.Try, ast.With)):
                for x in ws:
                    if x.state == 'STALE' and not x.weak:
                        stale.append((s, x))
        return orig_transfer(s, ws)
    w.transfer = transfer_hook
    w.run()
    for kind, node, wl in w.exits:
        for x in wl:
            if x.state == 'STALE' and not x.weak and kind in ('return', 'fall'):
                stale.append((node if hasattr(node, 'lineno') else whiles[0], x))
    fresh_seen = any(isinstance(s, ast.Assign) and norm(s.value.func if isinstance(s.value, ast.Call) else s.value) == 'self.batch_extract'
                     for s in ast.walk(f.node) if isinstance(s, ast.Assign))
    if not fresh_seen:
        raise AnalysisError('Extractor.extract no longer assigns self.results = self.batch_extract()')
    run.ob('C03-LOOP', '%s::%s' % (f.rel, f.short), not stale,
           'the loop is left only with fresh results' if not stale else
           'the loop can end right after extending self.examples (last attempt) without re-extracting: the returned expressions were '
           'computed before the failing examples were added', fn=f, node=stale[0][0] if stale else whiles[0])
    run.floor('C03-LOOP', 1, 1)


# ---------------------------------------------------------------------------
def pred_set(e, universe, env):
    """Characters of `universe` for which the test expression e (over the name c) holds."""
    if isinstance(e, ast.BoolOp):
        sets = [pred_set(v, universe, env) for v in e.values]
        out = sets[0]
        for s in sets[1:]:
            out = (out & s) if isinstance(e.op, ast.And) else (out | s)
        return out
    if isinstance(e, ast.UnaryOp) and isinstance(e.op, ast.Not):
        return universe - pred_set(e.operand, universe, env)
    if isinstance(e, ast.Call) and isinstance(e.func, ast.Attribute) and isinstance(e.func.value, ast.Name) \
            and e.func.value.id == 'c' and not e.args and e.func.attr in ('isdigit', 'isdecimal', 'isnumeric', 'isalpha', 'isalnum',
                                                                         'isupper', 'islower', 'isspace'):
        m = e.func.attr
        return frozenset(ch for ch in universe if getattr(ch, m)())
    if isinstance(e, ast.Compare):
        operands = [e.left] + list(e.comparators)
        out = universe
        for op, a, b in zip(e.ops, operands, operands[1:]):
            av, bv = _cval(a, env), _cval(b, env)
            if isinstance(op, (ast.In, ast.NotIn)) and av == ('c',):
                s = frozenset(ch for ch in universe if ch in bv)
                out = out & (s if isinstance(op, ast.In) else universe - s)
                continue
            f = {ast.LtE: lambda x, y: x <= y, ast.Lt: lambda x, y: x < y, ast.GtE: lambda x, y: x >= y, ast.Gt: lambda x, y: x > y,
                 ast.Eq: lambda x, y: x == y, ast.NotEq: lambda x, y: x != y}.get(type(op))
            if f is None:
                raise AnalysisError('classifier test not interpretable: %s' % ast.unparse(e))
            if av == ('c',):
                out = frozenset(ch for ch in out if f(ch, bv))
            elif bv == ('c',):
                out = frozenset(ch for ch in out if f(av, ch))
            else:
                if not f(av, bv):
                    out = frozenset()
        return out
    if isinstance(e, ast.Name) and e.id in env:
        return universe if env[e.id] else frozenset()
    if isinstance(e, ast.Constant):
        return universe if e.value else frozenset()
    raise AnalysisError('classifier test not interpretable: %s' % ast.unparse(e))


def _cval(e, env):
    if isinstance(e, ast.Name) and e.id == 'c':
        return ('c',)
    if isinstance(e, ast.Constant):
        return e.value
    t = norm(e)
    if t in env:
        return env[t]
    raise AnalysisError('classifier operand not interpretable: %s' % t)


def _char_tests(f):
    """The tests fine_class makes on its character: the outermost comparisons and method calls that mention it.  Every use of the
    character must be inside one of them (else the function sees more of the character than the tests say)."""
    c = f.posparams[-1]
    atoms = []
    covered = set()

    def visit(n):
        if isinstance(n, (ast.Compare, ast.Call)) and any(isinstance(x, ast.Name) and x.id == c for x in ast.walk(n)):
            atoms.append(n)
            for x in ast.walk(n):
                covered.add(id(x))
            return
        for ch in ast.iter_child_nodes(n):
            visit(ch)
    for st in f.node.body:
        visit(st)
    loose = [x for x in ast.walk(f.node) if isinstance(x, ast.Name) and x.id == c and isinstance(x.ctx, ast.Load) and id(x) not in covered]
    if loose or not atoms:
        raise AnalysisError('fine_class uses its character outside comparisons and method tests (line %s)' % (loose[0].lineno if loose else f.node.lineno))
    if c != 'c':
        # pred_set reads tests over the name c
        class _Ren(ast.NodeTransformer):
            def visit_Name(self, n):
                return ast.copy_location(ast.Name(id='c', ctx=n.ctx), n) if n.id == c else n
        import copy
        atoms = [_Ren().visit(copy.deepcopy(a)) for a in atoms]
    return atoms


def klass(run, p, I, flags):
    run.rule('C03-CLASS', 'for every character that can reach the fine classifier (i.e. lies in the coarse alphanumeric class) the class '
                          'code it is given denotes a regex class that contains it; checked as sets over all Unicode code points, for '
                          'every extra-letters configuration')
    f = p.method('Extractor', 'fine_class')
    unichrs = p.const('tdda.rexpy.rexpy', 'UNICHRS')
    n = 0
    for extra in EXTRA_CONFIGS:
        cats, o = categories(p, I, extra)
        coarse = 'UAlphaNumeric' if unichrs else 'AlphaNumeric'
        universe = charset(cats[coarse], flags)
        env = {'UNICHRS': unichrs, 'cats.extra_letters': o.attrs.get('extra_letters', '') or ''}
        # fine_class looks at the character only through a few tests (c.isdecimal(), 'a' <= c <= 'z', c in ...): the characters
        # fall into classes that agree on every test, and the function - whatever its control flow - gives one answer per class;
        # it is evaluated on representatives of each class
        atoms = _char_tests(f)
        sig = {}
        sets = [pred_set(t, universe, env) for t in atoms]
        for ch in universe:
            sig.setdefault(tuple(ch in st for st in sets), []).append(ch)
        code_to_cat = {}
        for cname, cobj in o.attrs.items():
            if hasattr(cobj, 'attrs') and 'code' in cobj.attrs:
                code_to_cat[cobj.attrs['code']] = cname
        by_cat = {}
        for key, chars in sorted(sig.items()):
            reps = {min(chars), max(chars), chars[len(chars) // 2]}
            codes = set()
            for ch in reps:
                self_o = Obj(f.cls)
                self_o.attrs['Cats'] = o
                try:
                    codes.add(Interp(p, consts={'UNICHRS': unichrs}).call(f, [ch], selfobj=self_o))
                except (Unsupported, Raised) as e:
                    raise AnalysisError('fine_class is not evaluable on %r: %s' % (ch, e))
            if len(codes) != 1:
                raise AnalysisError('fine_class distinguishes characters its tests do not: %r get %s' % (sorted(reps), sorted(codes)))
            code = codes.pop()
            if code not in code_to_cat:
                raise AnalysisError('fine_class returns %r, which is no category code' % (code,))
            by_cat.setdefault(code_to_cat[code], set()).update(chars)
        for cat, chars in sorted(by_cat.items()):
            s_ = frozenset(chars)
            if cat not in cats:
                run.ob('C03-CLASS', 'fine_class[%s]:%s' % (extra, cat), False, 'fine_class answers %s, which has no regex for extra_letters=%r' % (cat, extra), fn=f)
                continue
            cls = charset(cats[cat], flags)
            miss = sorted(s_ - cls)
            n += 1
            run.ob('C03-CLASS', 'fine_class:%s' % cat if miss else 'fine_class[%s]:%s' % (extra, cat), not miss,
                   'extra_letters=%r: %d characters are classed %s (%s)%s' % (extra, len(s_), cat, cats[cat],
                                                                               '' if not miss else '; %d of them are not matched by it, e.g. %s'
                                                                               % (len(miss), ' '.join('U+%04X' % ord(c) for c in miss[:4]))),
                   fn=f, detail={'examples': miss[:8]} if miss else None)
    # the coarse classifier classifies *by* the class regex: holds by construction if it tests cat.re_single
    g = p.method('Extractor', 'coarse_classify_char')
    import re as _re
    probs = []
    samples = ['a', 'Z', 'm', '0', '7', ' ', '\t', '\n', '-', '_', '.', ',', '/', '\\', '"', "'", '(', '*', '\u00e9', '\u00df', '\u0416', '\u4e2d', '\u0663', '\u00b2', '\x00', '~']
    from .rexpy_eval import _interp as _real_re_interp
    for extra in EXTRA_CONFIGS[:2]:
        cats, o = categories(p, _real_re_interp(p), extra)      # (with the real re module: the category objects hold compiled patterns)
        code_re = {}
        for cname, cobj in o.attrs.items():
            if hasattr(cobj, 'attrs') and 'code' in cobj.attrs and 're_single' in cobj.attrs:
                code_re.setdefault(cobj.attrs['code'], []).append(cobj.attrs['re_single'])
        for ch in samples:
            self_o = Obj(g.cls)
            self_o.attrs['Cats'] = o
            J = _real_re_interp(p)
            try:
                code = J.call(g, [ch], selfobj=self_o)
            except (Unsupported, Raised) as e:
                raise AnalysisError('coarse_classify_char is not evaluable on %r: %s' % (ch, e))
            res = [getattr(r, 'pattern', r) for r in code_re.get(code, [])]
            if not res or not any(_re.match(r, ch, flags) for r in res):
                probs.append('%r is given the code %r, whose own regex %s does not match it' % (ch, code, res[:1]))
    run.ob('C03-CLASS', 'coarse_classify_char', not probs,
           'the coarse classifier returns the code of a category whose own regex matches the character (evaluated on %d characters)%s'
           % (len(samples), '' if not probs else ': ' + probs[0]), fn=g, nontrivial=False)
    run.floor('C03-CLASS', n, 24)


def dialect(run, p, I, flags):
    run.rule('C03-DIALECT', 'for the dialects whose output is interpreted as a Python regular expression (portable, grep) every '
                            'category regex substituted for output matches at least the characters of the internal class it stands for')
    base, _ = categories(p, I, None)
    n = 0
    for d in ('portable', 'grep'):
        out, _ = categories(p, I, None, d)
        for k in sorted(base):
            if k in out and out[k] != base[k]:
                n += 1
                a, b = charset(base[k], flags), charset(out[k], flags)
                miss = sorted(a - b)
                run.ob('C03-DIALECT', '%s:%s' % (d, k), not miss,
                       'dialect %s renders %s as %s instead of %s%s' % (d, k, out[k], base[k], '' if not miss else
                                                                        ': %d characters of the internal class are not matched, e.g. %s'
                                                                        % (len(miss), ' '.join('U+%04X' % ord(c) for c in miss[:4]))),
                       fn=p.method('Categories', 'adapt_for_output'))
    run.floor('C03-DIALECT', n, 2)


META = set('.^$*+?{}[]\\|()')


def esc(run, p):
    run.rule('C03-ESC', 'characters left unescaped by escape() are not regex metacharacters; every fragment marked fixed in '
                        'refine_fragments takes its text from escape() or escaped_bracket()')
    m = p.mod('tdda.rexpy.rexpy')
    un = p.const(m, 'UNESCAPES')
    bad = sorted(set(un) & META)
    lit = [c for c in un if not (len(sre_parse.parse(c)) == 1 and sre_parse.parse(c)[0][0] is C.LITERAL)]
    run.ob('C03-ESC', 'UNESCAPES', not bad and not lit, 'UNESCAPES=%r: metacharacters %s, non-literal %s' % (un, bad, lit),
           rel=m.rel, line=m.consts['UNESCAPES'].lineno)
    e = p.fn(RX + 'escape')
    src = ast.unparse(e.node)
    run.ob('C03-ESC', 'escape', 're.escape(c)' in src and 're.escape(s)' in src and 'UNESCAPES' in src,
           'escape() passes every character outside UNESCAPES through re.escape', fn=e, nontrivial=False)
    f = p.method('Extractor', 'refine_fragments')
    n = 0
    for s in ast.walk(f.node):
        body = getattr(s, 'body', None)
        for blk in [getattr(s, 'body', None), getattr(s, 'orelse', None)]:
            if not isinstance(blk, list):
                continue
            fixed = [x for x in blk if isinstance(x, ast.Assign) and norm(x).replace(' ', '') == 'fixed=True']
            if not fixed:
                continue
            refs = [x for x in blk if isinstance(x, ast.Assign) and any(norm(t) == 'refined' for t in x.targets)]
            for r in refs:
                n += 1
                v = r.value
                name = v.func.attr if isinstance(v, ast.Call) and isinstance(v.func, ast.Attribute) else getattr(getattr(v, 'func', None), 'id', None)
                run.ob('C03-ESC', '%s::%s::%s' % (f.rel, f.short, norm(r)[:50]), name in ('escape', 'escaped_bracket'),
                       'fixed fragment text `%s`' % norm(r)[:60], fn=f, node=r)
    # the same fragments written without the flag: out.append((<text>, m, M, 'fixed')) with the text computed in place
    for c in ast.walk(f.node):
        if isinstance(c, ast.Call) and isinstance(c.func, ast.Attribute) and c.func.attr == 'append' and len(c.args) == 1 \
                and isinstance(c.args[0], ast.Tuple) and len(c.args[0].elts) == 4 and isinstance(c.args[0].elts[3], ast.Constant) \
                and c.args[0].elts[3].value == 'fixed' and not isinstance(c.args[0].elts[0], ast.Name):
            n += 1
            v = c.args[0].elts[0]
            name = v.func.attr if isinstance(v, ast.Call) and isinstance(v.func, ast.Attribute) else getattr(getattr(v, 'func', None), 'id', None)
            run.ob('C03-ESC', '%s::%s::%s' % (f.rel, f.short, norm(v)[:50]), name in ('escape', 'escaped_bracket'),
                   'fixed fragment text `%s`' % norm(v)[:60], fn=f, node=c)
    run.floor('C03-ESC', n, 3)


FUTURE_WARNED = []


def denotes(bracket, flags, extra=''):
    """-> (set of probe characters the one-item regex matches, negated?, has range?) or None if it is not one set item."""
    import warnings
    try:
        with warnings.catch_warnings(record=True) as wl:
            warnings.simplefilter('always')
            parsed = sre_parse.parse(bracket, flags)
        for w in wl:
            FUTURE_WARNED.append((bracket, str(w.message)))
    except re.error:
        return None
    if len(parsed) != 1:
        return None
    op, av = parsed[0]
    if op is C.LITERAL:
        return {chr(av)}, False, False
    if op is C.NOT_LITERAL:
        return set(), True, False
    if op is not C.IN:
        return None
    neg = any(o is C.NEGATE for o, a in av)
    rng = any(o is C.RANGE for o, a in av)
    probe = set(']\\^-xX09_ /') | set(extra)
    return {c for c in probe if reglang._in_set(av, c)}, neg, rng


def bracket(run, p, I, flags, pid):
    rid = pid + '-BRACKET'
    run.rule(rid, 'for every combination of the characters ] \\ ^ - (with and without an ordinary character) and every dialect whose '
                  'output Python interprets, escaped_bracket returns a bracket expression that parses and denotes exactly those '
                  'characters: not negated, no accidental range')
    f = p.fn(RX + 'escaped_bracket')
    specials = [']', '\\', '^', '-']
    n = 0
    for d in PY_DIALECTS:
        for mask in range(1, 16):
            plains = ('', 'x')
            if run.tier == 'thorough':
                # deeper: every other regex metacharacter and some non-ASCII characters as the ordinary one, every order
                plains = ('', 'x', '[', '.', '$', '*', '+', '?', '{', '}', '(', ')', '|', ' ', '/', '&', '~', '"', "'", '\u00e9', '\u0663', '\t')
            for plain in plains:
                chars = ''.join(c for i, c in enumerate(specials) if mask >> i & 1) + plain
                orders = (chars, chars[::-1])
                if run.tier == 'thorough':
                    import itertools
                    orders = sorted({''.join(q) for q in itertools.permutations(chars)})
                for order in orders:
                    try:
                        I.steps = 0
                        out = I.call(f, [order], {'dialect': d})
                    except Unsupported as e:
                        raise AnalysisError('escaped_bracket not interpretable: %s' % e)
                    n += 1
                    den = denotes(out, flags, order)
                    want = set(order)
                    ok = den is not None and den[0] == want and not den[1] and not den[2]
                    if not ok:
                        run.ob(rid, 'escaped_bracket:%s' % ''.join(sorted(want)), False,
                               'escaped_bracket(%r, dialect=%r) returns %r, which %s' % (
                                   order, d, out, 'does not parse as one class' if den is None else
                                   ('is a negated class' if den[1] else ('contains a range' if den[2] else
                                                                         'denotes %s instead of %s' % (sorted(den[0]), sorted(want))))),
                               fn=f)
    if FUTURE_WARNED:
        run.note(rid, 'the re module warns about %d generated classes (e.g. %r: %s); they parse and denote their input today' % (
            len(FUTURE_WARNED), FUTURE_WARNED[0][0], FUTURE_WARNED[0][1]), fn=f)
        del FUTURE_WARNED[:]
    bad = [o for o in run.obs if o.rule == rid and not o.ok]
    if not bad:
        run.ob(rid, 'escaped_bracket:all', True, '%d inputs evaluated by abstract interpretation of escaped_bracket; all denote their input set' % n, fn=f)
    run.floor(rid, n, 150)


def widen(run, p, I):
    run.rule('C03-WIDEN', 'plusify_vrle only ever widens a repetition range: for every (min, max) the returned fragment admits every '
                          'count the input admitted (minimum not raised, maximum not lowered), fixed marker kept')
    f = p.fn(RX + 'plusify_vrle')
    n = 0
    bad = []
    for m in range(0, 5):
        for M in list(range(m, 9)) + [None]:
            for fixed in (False, True):
                frag = ('x', m, M, 'fixed') if fixed else ('x', m, M)
                try:
                    out = I.call(f, [frag])
                except Unsupported as e:
                    raise AnalysisError('plusify_vrle not interpretable: %s' % e)
                n += 1
                ok = isinstance(out, tuple) and len(out) == len(frag) and out[0] == 'x' and out[1] is not None and out[1] <= m and \
                    (out[2] is None or (M is not None and out[2] >= M)) and (not fixed or out[3] == 'fixed')
                if not ok:
                    bad.append((frag, out))
    run.ob('C03-WIDEN', 'plusify_vrle', not bad,
           '%d (min, max, fixed) inputs evaluated by abstract interpretation%s' % (n, '' if not bad else
                                                                                  '; narrowed: %r -> %r' % bad[0]), fn=f)
    run.floor('C03-WIDEN', n, 80)


def engine(run, p):
    run.rule('C03-ENGINE', 'rexpy classifies characters and self-checks with the standard library re module, the engine its Python-dialect '
                           'output is documented to be interpreted by')
    m = p.mod('tdda.rexpy.rexpy')
    binders = [n for n in ast.walk(m.tree) if isinstance(n, (ast.Import, ast.ImportFrom)) and any((a.asname or a.name.split('.')[0]) == 're' for a in n.names)]
    ok = len(binders) == 1 and isinstance(binders[0], ast.Import) and any(a.name == 're' and a.asname in (None, 're') for a in binders[0].names)
    line = binders[0].lineno if binders else 1
    run.ob('C03-ENGINE', 'tdda.rexpy.rexpy:re', ok, 'the name re in rexpy.py is bound by `%s`' % (norm(binders[0]) if binders else None), rel=m.rel, line=line)
    run.floor('C03-ENGINE', 1, 1)


def catsync(run, p):
    run.rule('C03-CATSYNC', 'the internal and the output category sets are built together from the same thinned extra letters: both '
                            'Categories(...) constructions sit in Extractor.__init__ with no change to the examples in between')
    ex = p.cls('Extractor')
    sites = []
    for f in ex.methods.values():
        for x in p.own_nodes(f):
            if isinstance(x, ast.Call) and getattr(x.func, 'id', '') == 'Categories':
                sites.append((f, x))
    fns = {f.name for f, x in sites}
    ok = len(sites) >= 2 and fns == {'__init__'}
    if ok:
        f = sites[0][0]
        lo, hi = min(x.lineno for _, x in sites), max(x.lineno for _, x in sites)
        between = [s for s in ast.walk(f.node) if isinstance(s, (ast.Assign, ast.Expr)) and lo < s.lineno < hi and 'self.examples' in ast.unparse(s)
                   and not any(s is y or any(z is y for z in ast.walk(s)) for _, y in sites)]
        args = {norm(x.args[0]) for _, x in sites if x.args}
        ok = not between and len(args) == 1
    run.ob('C03-CATSYNC', 'Extractor:Categories', ok, 'Categories(...) is constructed in %s with first arguments %s' % (sorted(fns), sorted({norm(x.args[0]) for _, x in sites if x.args})),
           fn=sites[0][0] if sites else ex.methods['__init__'], node=sites[-1][1] if sites else None)
    run.floor('C03-CATSYNC', len(sites), 2)


def _slot(t):
    """the accumulator a store / mutating call is about: NAME[...] -> NAME (parallel lists, one entry per fragment);
    obj.attr -> attr (one record per fragment, obj a local alias of it); None for plain locals and for self"""
    if isinstance(t, ast.Subscript) and isinstance(t.value, ast.Name):
        return t.value.id
    if isinstance(t, ast.Attribute) and isinstance(t.value, ast.Name) and t.value.id not in ('self', 'cls'):
        return t.attr
    if isinstance(t, ast.Attribute) and isinstance(t.value, ast.Subscript) and isinstance(t.value.value, ast.Name):
        return t.attr
    return None


def _size_limit(e):
    """the expression reads a limit of the Size settings (size.max_..., self.size.max_...)"""
    return any(isinstance(x, ast.Attribute) and ast.unparse(x.value) in ('size', 'self.size') for x in ast.walk(e))


def evidence(run, p, rid='C03-EVIDENCE'):
    from ..flow import GuardMap
    from .common import names_in
    run.rule(rid, 'sampling caps limit what is remembered, never what is seen: in analyse_fragments every per-fragment accumulator '
                  '(characters seen, fine-class and character run-length patterns) is updated for every example of the pattern - its '
                  'update is not guarded by a Size limit or by the capped string counter; only the set of remembered fragment strings, '
                  'which that counter measures, may be capped')
    f = p.method('Extractor', 'analyse_fragments')
    gm = GuardMap(f.node)
    loops = [n for n in p.own_nodes(f) if isinstance(n, ast.For)]
    in_loop = {id(x) for l in loops for x in ast.walk(l)}
    # the cap: a test against a Size limit; the counter is what it compares with the limit
    cap_tests = []
    counters = set()
    for n in p.own_nodes(f):
        if isinstance(n, ast.If) and id(n) in in_loop and _size_limit(n.test):
            cap_tests.append(n)
            for x in ast.walk(n.test):
                k = _slot(x)
                if k:
                    counters.add(k)
    # the counter is set from len(<the capped accumulator>)
    capped_ok = set(counters)
    counter_sets = []
    updates = []
    for s in p.own_nodes(f):
        if id(s) not in in_loop:
            continue
        slots = []
        if isinstance(s, (ast.Assign, ast.AugAssign)):
            tg = s.targets if isinstance(s, ast.Assign) else [s.target]
            for t in tg:
                for x in ([t] if not isinstance(t, (ast.Tuple, ast.List)) else t.elts):
                    k = _slot(x)
                    if k:
                        slots.append(k)
        elif isinstance(s, ast.Expr) and isinstance(s.value, ast.Call) and isinstance(s.value.func, ast.Attribute) and \
                s.value.func.attr in ('add', 'update', 'append', 'extend'):
            k = _slot(s.value.func.value)
            if k:
                slots.append(k)
        if not slots:
            continue
        updates.append((s, slots))
        if isinstance(s, ast.Assign) and set(slots) & counters:
            counter_sets.append(s)
            v = s.value
            if isinstance(v, ast.Call) and getattr(v.func, 'id', '') == 'len' and len(v.args) == 1 and _slot(v.args[0]):
                capped_ok.add(_slot(v.args[0]))
    n = 0
    for s, slots in updates:
        capped = []
        for g in gm.chain(s) or ():
            if g.kind != 'if':
                continue
            if _size_limit(g.test) or any(_slot(x) in counters for x in ast.walk(g.test)):
                capped.append(norm(g.test))
        for nm in sorted(set(slots)):
            n += 1
            ok = not capped or nm in capped_ok
            run.ob(rid, '%s::%s::%s' % (f.rel, f.short, nm), ok,
                   '%s is updated %s' % (nm, 'for every example' if not capped else
                                         'only while `%s`%s' % (capped[0], ' (allowed: the remembered strings and the counter of them)' if nm in capped_ok else
                                                                ': characters or run patterns of later examples are never seen, so the class chosen '
                                                                'for the fragment can exclude them')), fn=f, node=s)
    # the counter that enforces the cap counts what the cap is about: the distinct strings stored, not the examples seen
    for s in counter_sets:
        n += 1
        v = s.value
        ok = isinstance(v, ast.Call) and getattr(v.func, 'id', '') == 'len' and len(v.args) == 1 and _slot(v.args[0]) is not None and \
            any(_slot(v.args[0]) in sl and s2 is not s for s2, sl in updates)
        run.ob(rid, '%s::%s::cap-counter' % (f.rel, f.short), ok,
               'the cap counter is set by `%s`%s' % (norm(s)[:50], '' if ok else
                                                     ': it no longer counts the distinct strings stored, so collection can stop while '
                                                     'only one distinct string has been seen and the fragment is taken for a constant'),
               fn=f, node=s)
    for s in p.own_nodes(f):
        if isinstance(s, ast.AugAssign) and _slot(s.target) in counters:
            n += 1
            run.ob(rid, '%s::%s::cap-counter' % (f.rel, f.short), False,
                   'the cap counter is set by `%s`: it no longer counts the distinct strings stored, so collection can stop while only '
                   'one distinct string has been seen and the fragment is taken for a constant' % norm(s)[:50], fn=f, node=s)
    if not cap_tests:
        run.note(rid, 'no Size limit is tested in analyse_fragments: nothing is capped', f, f.node)
    run.floor(rid, n, 5)


def discard(run, p, rid='C03-DISCARD'):
    import collections
    import itertools
    from ..pyeval import SAFE_BUILTINS
    run.rule(rid, 'an example is dropped only by an explicit option: over (strip, remove_empties) x representative strings (empty, '
                  'blank, tab, padded, plain, null) Extractor.clean keeps exactly the strings the options say - the string as it will be '
                  'used (stripped only if strip is on) is what is tested for emptiness - and its counters agree; evaluated by abstract '
                  'interpretation of clean() for list and frequency-dictionary input')
    ex = p.cls('Extractor')
    f = ex.methods['clean']
    SAFE_BUILTINS.setdefault('Counter', collections.Counter)
    I = Interp(p)

    def hook(m, args, kwargs, selfobj):
        if m.name == '__init__' and m.cls is not None and m.cls.name == 'Examples':
            selfobj.attrs['strings'] = list(args[0])
            selfobj.attrs['freqs'] = list(args[1])
            return True, None
        if m.name == 'ilist':
            return True, list(args[0])
        return False, None
    I.on_call = hook
    strings = ['', ' ', 'a', ' a ', None, '\t', 'b ', ' ']
    n = 0
    for strip, rem, form in itertools.product((False, True), (False, True), ('list', 'dict')):
        o = Obj(ex)
        o.attrs.update(strip=strip, remove_empties=rem, n_nulls=0, n_empties=0, n_stripped=0, verbose=0)
        arg = list(strings) if form == 'list' else collections.OrderedDict((s, 2) for s in strings)
        mult = 1 if form == 'list' else 2
        I.steps = 0
        try:
            r = I.call(f, [arg], selfobj=o)
        except Unsupported as e:
            raise AnalysisError('Extractor.clean not interpretable: %s' % e)
        want, nn, ne, ns = [], 0, 0, 0
        for s in strings:
            if s is None:
                nn += mult
                continue
            kept = s.strip() if strip else s
            if rem and kept == '':
                ne += mult
                continue
            if kept not in want:
                want.append(kept)
            if kept != s:
                ns += mult
        got = r.attrs.get('strings') if isinstance(r, Obj) else None
        n += 1
        ok = got is not None and sorted(got) == sorted(want) and (o.attrs['n_nulls'], o.attrs['n_empties'], o.attrs['n_stripped']) == (nn, ne, ns)
        run.ob(rid, 'strip=%s,remove_empties=%s,%s' % (strip, rem, form), ok,
               'clean keeps %r (expected %r); nulls/empties/stripped = %r (expected %r)' % (
                   got, want, (o.attrs['n_nulls'], o.attrs['n_empties'], o.attrs['n_stripped']), (nn, ne, ns)), fn=f)
    run.floor(rid, n, 8)


def wspad(run, p, rid='C03-WSPAD'):
    from .common import names_in
    run.rule(rid, 'if any example was stripped, every returned expression lets the whitespace back in - also the expression for '
                  'examples that were blank: in vrle2re and vrle2refrags the test that guards the \\s* padding depends on '
                  'self.n_stripped alone (not on the pattern having fragments)')
    n = 0
    for name in ('vrle2re', 'vrle2refrags'):
        f = p.method('Extractor', name)
        tests = [x for x in p.own_nodes(f) if isinstance(x, (ast.If, ast.IfExp)) and 'self.n_stripped' in names_in(x.test)]
        if not tests:
            raise AnalysisError('%s no longer tests self.n_stripped' % name)
        for t in tests:
            n += 1
            extra = sorted(names_in(t.test) - {'self.n_stripped', 'self'})
            run.ob(rid, '%s::%s::%s' % (f.rel, f.short, norm(t.test)[:40]), not extra,
                   '%s pads with whitespace under `%s`%s' % (name, norm(t.test)[:50], '' if not extra else
                                                            ': also depends on %s, so some expressions go without their padding' % extra),
                   fn=f, node=t)
    run.floor(rid, n, 2)
