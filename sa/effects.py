"""E6 - file-system effects with flow-sensitive path provenance and guard chains.

summary(F) = list of Effect(kind, provenance of the path, guards, site, via).
Provenance tags (strings):
    TMP            os.path.join(self.tmp_dir, <relative-safe>)
    REF            value of _resolve_reference_path(s)
    param:<name>   derives from F's parameter <name> (mapped at call sites)
    const:<text>   a string constant
    BASENAME       os.path.basename(...) / os.path.split(...)[1]
    self.<attr>    an instance attribute
    call:<f>       result of an unresolved / opaque call
    ESCAPE         a join whose later component may be absolute
    UNKNOWN:<x>
Guards are (polarity, ast expression) pairs; callee guards are substituted
through the argument binding at each call site.
"""
import ast
import re
import copy

from .model import AnalysisError

WRITE_FUNCS = {
    'os.remove': [0], 'os.unlink': [0], 'os.rmdir': [0], 'os.mkdir': [0], 'os.makedirs': [0],
    'os.rename': [0, 1], 'os.replace': [0, 1], 'os.removedirs': [0],
    'shutil.copy': [1], 'shutil.copyfile': [1], 'shutil.copy2': [1], 'shutil.copytree': [1],
    'shutil.move': [0, 1], 'shutil.rmtree': [0], 'os.truncate': [0], 'os.utime': [0], 'os.chmod': [0],
    'os.symlink': [1], 'os.link': [1],
}
WRITE_METHODS = {'to_csv': ('path_or_buf', 0), 'to_parquet': ('path', 0), 'to_feather': ('path', 0),
                 'to_pickle': ('path', 0), 'to_json': ('path_or_buf', 0), 'to_excel': ('excel_writer', 0)}
PASS_THROUGH = {'os.path.normpath', 'os.path.abspath', 'os.path.expanduser', 'os.path.realpath', 'str',
                'os.path.normcase', 'handle_tilde'}
REF_PRODUCERS = {'_resolve_reference_path', '_resolve_reference_paths'}


class G:
    """A guard: polarity, expression (substituted through call bindings),
    and where it was written (origin function, original expression)."""
    __slots__ = ('pol', 'expr', 'kind', 'origin', 'orig')

    def __init__(self, pol, expr, kind='if', origin=None, orig=None):
        # normalise `not e` into the polarity
        while kind == 'if' and isinstance(expr, ast.UnaryOp) and isinstance(expr.op, ast.Not):
            expr = expr.operand
            pol = not pol
        self.pol = pol
        self.expr = expr
        self.kind = kind
        self.origin = origin
        self.orig = orig if orig is not None else expr

    def text(self):
        if self.kind != 'if':
            return self.kind
        t = ast.unparse(self.expr)
        return t if self.pol else 'not (%s)' % t

    def __repr__(self):
        return self.text()


class Effect:
    __slots__ = ('kind', 'prov', 'guards', 'fn', 'node', 'via')

    def __init__(self, kind, prov, guards, fn, node, via=()):
        self.kind = kind
        self.prov = frozenset(prov)
        self.guards = tuple(guards)
        self.fn = fn
        self.node = node
        self.via = tuple(via)

    def describe(self):
        return '%s(%s) in %s:%s%s under [%s]' % (
            self.kind, ','.join(sorted(self.prov)), self.fn.short, self.node.lineno,
            (' via ' + '>'.join(self.via)) if self.via else '',
            ' & '.join(g.text() for g in self.guards))


def is_write_mode(m):
    return isinstance(m, str) and any(c in m for c in 'wax+')


class _Subst(ast.NodeTransformer):
    def __init__(self, mapping):
        self.mapping = mapping

    def visit_Name(self, n):
        if n.id in self.mapping and self.mapping[n.id] is not None:
            return copy.deepcopy(self.mapping[n.id])
        return n


def subst(expr, mapping):
    return _Subst(mapping).visit(copy.deepcopy(expr))


def bind_args(prog, f, call, g):
    """param name -> argument expression (defaults filled in) for call f->g."""
    pos = list(g.posparams)
    if g.is_method and not g.is_static:
        fn = call.func
        unbound_form = False
        if isinstance(fn, ast.Attribute):
            s = prog.resolve_expr(f.mod, fn.value)
            if s is not None and s.kind == 'class' and not (isinstance(fn.value, ast.Name)
                                                             and prog._is_local(f, fn.value.id)):
                unbound_form = not g.is_classmethod
        if not unbound_form and pos:
            pos = pos[1:]
    m = {}
    for i, a in enumerate(call.args):
        if isinstance(a, ast.Starred):
            break
        if i < len(pos):
            m[pos[i]] = a
    for k in call.keywords:
        if k.arg:
            m[k.arg] = k.value
    for p in pos + g.kwonly:
        if p not in m and p in g.defaults:
            m[p] = g.defaults[p]
    return m


class Effects:
    def __init__(self, prog, extra_ref_producers=(), tmp_attrs=('tmp_dir',), attr_tags=None):
        self.prog = prog
        self.attr_tags = dict(attr_tags or {})
        self.memo = {}
        self.active = set()
        self.tuple_rets = {}      # (function, ctx) -> per return statement: per-position provenance, or None for a non-tuple return
        self.ref_producers = set(REF_PRODUCERS) | set(extra_ref_producers)
        self.tmp_attrs = set(tmp_attrs)

    # ------------------------------------------------------------ provenance
    def relsafe(self, e, env):
        """Can this path component never be absolute / escape upwards?

        -> True / False / frozenset(parameter names that must be relative-safe)."""
        def const_ok(v, allow_empty=False):
            return isinstance(v, str) and (allow_empty or v != '') and not v.startswith(('/', '\\')) and '..' not in v
        if isinstance(e, ast.Constant):
            return const_ok(e.value)
        if isinstance(e, ast.BinOp) and isinstance(e.op, ast.Add):
            l = self.relsafe(e.left, env)
            if l is True:
                return True
            if l is False:
                # an empty-string prefix followed by a safe component is still safe
                if isinstance(e.left, ast.Constant) and e.left.value == '':
                    return self.relsafe(e.right, env)
                return False
            r = self.relsafe(e.right, env)      # prefix parameter: '' + right, or 'x-' + right
            if r is False:
                return False
            return l if r is True else (l | r)
        if isinstance(e, ast.BinOp) and isinstance(e.op, ast.Mod) and isinstance(e.left, ast.Constant) \
                and isinstance(e.left.value, str):
            v = e.left.value
            return bool(v) and not v.startswith(('/', '\\', '%')) and '..' not in v
        if isinstance(e, ast.JoinedStr):
            return bool(e.values) and isinstance(e.values[0], ast.Constant) and \
                const_ok(str(e.values[0].value))
        if isinstance(e, ast.Call):
            n = ast.unparse(e.func)
            if n == 'os.path.basename':
                return True
            if isinstance(e.func, ast.Attribute) and e.func.attr in ('get_temp_filename',):
                return True
            if n == 'str' and len(e.args) == 1 and isinstance(e.args[0], ast.Name) and env.get(e.args[0].id) == {'INT'}:
                return True
        if isinstance(e, ast.Subscript) and isinstance(e.value, ast.Call) and \
                ast.unparse(e.value.func) == 'os.path.split' and isinstance(e.slice, ast.Constant) \
                and e.slice.value in (1, -1):
            return True
        if isinstance(e, ast.Name):
            ps = env.get(e.id)
            if ps is None:
                return False
            deps = set()
            for p in ps:
                if p in ('BASENAME', 'RELSAFE', 'INT'):
                    continue
                if p.startswith('const:') and const_ok(p[6:], allow_empty=True):
                    continue
                if p.startswith('param:'):
                    deps.add(p[6:])
                    continue
                return False
            return frozenset(deps) if deps else True
        return False

    def prov(self, e, env, f, ctx):
        if e is None:
            return {'NONE'}
        if isinstance(e, ast.Name):
            if e.id in env:
                return set(env[e.id])
            return {'UNKNOWN:' + e.id}
        if isinstance(e, ast.Constant):
            if isinstance(e.value, str):
                return {'const:' + e.value}
            return {'NONE'} if e.value is None else {'const:%r' % (e.value,)}
        if isinstance(e, ast.Attribute):
            if isinstance(e.value, ast.Name) and e.value.id in ('self', 'cls'):
                if e.attr in self.tmp_attrs:
                    return {'TMP'}
                if e.attr in self.attr_tags:
                    return {self.attr_tags[e.attr]}
                return {'self.' + e.attr}
            return {'attr:' + ast.unparse(e)}
        if isinstance(e, ast.Call):
            n = ast.unparse(e.func)
            if n == 'os.path.join' and e.args:
                first = self.prov(e.args[0], env, f, ctx)
                for a in e.args[1:]:
                    r = self.relsafe(a, env)
                    if r is False:
                        first = first | {'ESCAPE'}
                    elif r is not True:
                        first = first | {'ESCAPE_IF:' + x for x in r}
                return first
            if n in PASS_THROUGH and e.args:
                return self.prov(e.args[0], env, f, ctx)
            if n in ('os.path.basename', 'os.listdir'):
                return {'BASENAME'}          # a bare name, or a list of bare names
            if n == 'range':
                return {'INT'}
            if isinstance(e.func, ast.Attribute) and e.func.attr in self.ref_producers:
                return {'REF'}
            if isinstance(e.func, ast.Name) and e.func.id in self.ref_producers:
                return {'REF'}
            if n in ('tempfile.mkdtemp', 'tempfile.mkstemp', 'tempfile.gettempdir', 'tempfile.mktemp'):
                return {'SYSTMP'}
            ts, kind = self.prog.resolve_call(f, e, ctx)
            if kind == 'resolved' and ts:
                out = set()
                for g, c2 in ts:
                    effs, rets = self.summary(g, c2)
                    b = bind_args(self.prog, f, e, g)
                    out |= self.map_tags(rets, b, env, f, ctx)
                return out or {'call:' + n}
            return {'call:' + n}
        if isinstance(e, ast.Dict):
            out = set()
            for v in e.values:
                out |= self.prov(v, env, f, ctx)
            return out or {'EXPR'}
        if isinstance(e, ast.Subscript):
            item = env.get('#item:' + ast.unparse(e))
            if item is not None:
                return set(item)             # D[K] = v was the last thing done to this entry on every path here
            if isinstance(e.value, ast.Call) and ast.unparse(e.value.func) == 'os.path.split':
                if isinstance(e.slice, ast.Constant) and e.slice.value in (1, -1):
                    return {'BASENAME'}
                return self.prov(e.value.args[0], env, f, ctx) if e.value.args else {'EXPR'}
            if isinstance(e.value, ast.Call) and ast.unparse(e.value.func) == 'os.path.splitext':
                return self.prov(e.value.args[0], env, f, ctx) if e.value.args else {'EXPR'}
            return self.prov(e.value, env, f, ctx)
        if isinstance(e, ast.IfExp):
            return self.prov(e.body, env, f, ctx) | self.prov(e.orelse, env, f, ctx)
        if isinstance(e, ast.BoolOp):
            out = set()
            for v in e.values:
                out |= self.prov(v, env, f, ctx)
            return out - ({'NONE'} if len(out) > 1 else set())
        if isinstance(e, ast.BinOp) and isinstance(e.op, ast.Add):
            # path + suffix keeps the provenance of the path
            l = self.prov(e.left, env, f, ctx)
            if all(p.startswith('const:') for p in l):
                r = self.prov(e.right, env, f, ctx)
                return {'RELSAFE'} if self.relsafe(e, env) is True else r | {'EXPR'}
            return l
        if isinstance(e, (ast.ListComp, ast.GeneratorExp)):
            env2 = dict(env)
            for gen in e.generators:
                p = self.prov(gen.iter, env2, f, ctx)
                if isinstance(gen.iter, ast.Call) and ast.unparse(gen.iter.func) == 'os.listdir':
                    p = {'BASENAME'}
                for x in ast.walk(gen.target):
                    if isinstance(x, ast.Name):
                        env2[x.id] = p
            return self.prov(e.elt, env2, f, ctx)
        if isinstance(e, (ast.List, ast.Tuple)):
            out = set()
            for v in e.elts:
                out |= self.prov(v, env, f, ctx)
            return out or (set() if not e.elts else {'EXPR'})     # an empty literal contributes no element
        return {'EXPR'}

    def _tuple_returns(self, call, env, f, ctx, arity):
        """per-position provenance of a call whose callee returns tuples of this arity on every path, else None"""
        ts, kind = self.prog.resolve_call(f, call, ctx)
        if kind != 'resolved' or len(ts) != 1:
            return None
        g, c2 = ts[0]
        self.summary(g, c2)
        recs = self.tuple_rets.get((g.qn, c2))
        if not recs or any(r is None or len(r) != arity for r in recs):
            return None
        b = bind_args(self.prog, f, call, g)
        out = [set() for _ in range(arity)]
        for r in recs:
            for i, tags in enumerate(r):
                out[i] |= self.map_tags(tags, b, env, f, ctx)
        return out

    def map_tags(self, tags, b, env, f, ctx):
        """Map a callee's provenance tags through the argument binding b."""
        out = set()
        for p in tags:
            if p.startswith('param:'):
                a = b.get(p[6:])
                out |= self.prov(a, env, f, ctx) if a is not None else {'UNKNOWN:' + p}
            elif p.startswith('ESCAPE_IF:'):
                a = b.get(p[10:])
                r = self.relsafe(a, env) if a is not None else False
                if r is True:
                    continue
                if r is False:
                    out.add('ESCAPE')
                else:
                    out |= {'ESCAPE_IF:' + x for x in r}
            else:
                out.add(p)
        return out

    # --------------------------------------------------------------- summary
    def summary(self, f, ctx=None):
        key = (f.qn, ctx)
        if key in self.memo:
            return self.memo[key]
        if key in self.active:
            return [], set()
        self.active.add(key)
        try:
            res = self._analyse(f, ctx)
        finally:
            self.active.discard(key)
        self.memo[key] = res
        return res

    def _modes(self, mode, env, f=None):
        if mode is None:
            return ['r']
        if isinstance(mode, ast.Constant):
            return [mode.value]
        if isinstance(mode, ast.IfExp) and all(isinstance(x, ast.Constant) for x in (mode.body, mode.orelse)):
            return [mode.body.value, mode.orelse.value]
        if isinstance(mode, ast.Name):
            ms = env.get('#modes:' + mode.id)
            if ms:
                return list(ms)
            ps = env.get(mode.id, ())
            if ps and all(p.startswith('const:') for p in ps):
                return [p[6:] for p in ps]
        if isinstance(mode, ast.Call) and isinstance(mode.func, ast.Name):
            # open(path, mode_helper('r', binary)): the helper evaluated for its constant arguments, flags taken both ways
            got = self._mode_fn(mode, f)
            if got:
                return got
        return ['?w']

    def _table_cells(self, v, f, arity):
        """columns of TABLE[...] where TABLE is a module-level dict (or tuple) display of rows of `arity` string constants"""
        if not (isinstance(v, ast.Subscript) and isinstance(v.value, ast.Name)):
            return None
        tab = f.mod.consts.get(v.value.id)
        rows = list(tab.values) if isinstance(tab, ast.Dict) else list(tab.elts) if isinstance(tab, (ast.Tuple, ast.List)) else None
        if not rows or not all(isinstance(r, (ast.Tuple, ast.List)) and len(r.elts) == arity and
                               all(isinstance(c, ast.Constant) and isinstance(c.value, str) for c in r.elts) for r in rows):
            return None
        return [[r.elts[i].value for r in rows] for i in range(arity)]

    def _mode_fn(self, call, fm):
        import itertools
        from .pyeval import Interp, Unsupported
        if fm is None:
            return None
        s = fm.mod.syms.get(call.func.id)
        g = self.prog.funcs.get(s.target) if s is not None and s.kind == 'func' else None
        if g is None:
            return None
        slots = []
        for a in list(call.args) + [k.value for k in call.keywords]:
            slots.append([a.value] if isinstance(a, ast.Constant) else [True, False])
        names = [None] * len(call.args) + [k.arg for k in call.keywords]
        out = set()
        try:
            for combo in itertools.product(*slots):
                pos = [v for v, nm in zip(combo, names) if nm is None]
                kw = {nm: v for v, nm in zip(combo, names) if nm is not None}
                r = Interp(self.prog).call(g, pos, kw)
                if not isinstance(r, str):
                    return None
                out.add(r)
        except Unsupported:
            return None
        return sorted(out)

    def _analyse(self, f, ctx):
        prog = self.prog
        effects = []
        rets = set()
        env0 = {}
        for a in f.params + [x for x in (f.vararg, f.kwarg) if x]:
            env0[a] = {'param:' + a}

        def call_effects(n, env, guards):
            name = ast.unparse(n.func)
            if name == 'open' or name == 'io.open' or name == 'codecs.open':
                mode = n.args[1] if len(n.args) > 1 else None
                for k in n.keywords:
                    if k.arg == 'mode':
                        mode = k.value
                ms = self._modes(mode, env, f)
                if any(is_write_mode(m) or m == '?w' for m in ms) and n.args:
                    effects.append(Effect('open-write', self.prov(n.args[0], env, f, ctx), guards, f, n))
                return
            if name == 'os.open' and n.args:
                # the low-level open: a write when its flags ask for writing or creation (or cannot be read)
                fl = ast.unparse(n.args[1]) if len(n.args) > 1 else ''
                if not fl or any(w in fl for w in ('O_WRONLY', 'O_RDWR', 'O_CREAT', 'O_TRUNC', 'O_APPEND')) or 'O_RDONLY' not in fl:
                    effects.append(Effect('open-write', self.prov(n.args[0], env, f, ctx), guards, f, n))
                return
            if name in WRITE_FUNCS:
                for i in WRITE_FUNCS[name]:
                    if i < len(n.args):
                        effects.append(Effect(name, self.prov(n.args[i], env, f, ctx), guards, f, n))
                return
            if isinstance(n.func, ast.Attribute) and n.func.attr in WRITE_METHODS:
                kw, pos = WRITE_METHODS[n.func.attr]
                a = None
                if len(n.args) > pos:
                    a = n.args[pos]
                for k in n.keywords:
                    if k.arg == kw:
                        a = k.value
                if a is not None:
                    pv = self.prov(a, env, f, ctx)
                    if pv != {'NONE'}:
                        # to_json()/to_csv(None) return text; only a path argument writes
                        if not (n.func.attr in ('to_json', 'to_csv') and self._is_tdda_method(f, n, ctx)):
                            effects.append(Effect(n.func.attr, pv, guards, f, n))
                return
            ts, kind = prog.resolve_call(f, n, ctx)
            if kind == 'localvar' and isinstance(n.func, ast.Name):
                # function-valued parameter with a default that names a function
                dflt = self._param_default_target(f, n.func.id)
                if dflt is not None:
                    ts, kind = [(dflt, None)], 'resolved'
            if kind not in ('resolved',) or not ts:
                return
            for g, c2 in ts:
                effs, _ = self.summary(g, c2)
                if not effs:
                    continue
                b = bind_args(prog, f, n, g)
                for e in effs:
                    pv = self.map_tags(e.prov, b, env, f, ctx)
                    inner = tuple(G(x.pol, subst(x.expr, b) if x.kind == 'if' else x.expr, x.kind, x.origin, x.orig)
                                  for x in e.guards)
                    if any(x.kind == 'if' and fold_bool(x.expr) is (not x.pol) for x in inner):
                        continue        # infeasible at this call site (constant argument)
                    inner = tuple(x for x in inner if not (x.kind == 'if' and fold_bool(x.expr) is x.pol))
                    effects.append(Effect(e.kind, pv, tuple(guards) + inner, f, n, (g.short,) + e.via))

        def expr_effects(e, env, guards):
            if e is None:
                return
            # evaluate with and/or/ifexp refinement
            if isinstance(e, ast.BoolOp):
                gs = list(guards)
                for v in e.values:
                    expr_effects(v, env, gs)
                    gs = gs + [G(isinstance(e.op, ast.And), v, origin=f)]
                return
            if isinstance(e, ast.IfExp):
                expr_effects(e.test, env, guards)
                expr_effects(e.body, env, list(guards) + [G(True, e.test, origin=f)])
                expr_effects(e.orelse, env, list(guards) + [G(False, e.test, origin=f)])
                return
            if isinstance(e, ast.Lambda):
                return
            for ch in ast.iter_child_nodes(e):
                if isinstance(ch, ast.expr):
                    expr_effects(ch, env, guards)
                elif isinstance(ch, ast.keyword):
                    expr_effects(ch.value, env, guards)
                elif isinstance(ch, ast.comprehension):
                    expr_effects(ch.iter, env, guards)
                    for i in ch.ifs:
                        expr_effects(i, env, guards)
            if isinstance(e, ast.Call):
                call_effects(e, env, guards)

        def expand(test, env):
            """Replace names that hold the value of a call/comparison by that expression."""
            m = {}
            for x in ast.walk(test):
                if isinstance(x, ast.Name) and ('#expr:' + x.id) in env:
                    m[x.id] = env['#expr:' + x.id]
            return subst(test, m) if m else test

        def forget_items(name, env):
            for k in [k for k in env if k.startswith('#item:') and re.search(r'\b%s\b' % re.escape(name), k[6:])]:
                del env[k]

        def assign(t, v, env):
            if isinstance(t, ast.Subscript) and isinstance(t.value, ast.Name) and v is not None:
                # an entry of a local container: the container may now hold this too; the entry itself holds exactly this
                pv = self.prov(v, env, f, ctx)
                env[t.value.id] = set(env.get(t.value.id, set())) | pv
                env['#item:' + ast.unparse(t)] = sorted(pv)
                return
            if isinstance(t, ast.Name):
                forget_items(t.id, env)
                env[t.id] = self.prov(v, env, f, ctx)
                if isinstance(v, (ast.Call, ast.Compare, ast.BoolOp, ast.UnaryOp)) and \
                        not any(isinstance(x, ast.Name) and x.id == t.id for x in ast.walk(v)):
                    env['#expr:' + t.id] = v
                else:
                    env.pop('#expr:' + t.id, None)
                if isinstance(v, ast.IfExp) and all(isinstance(x, ast.Constant) for x in (v.body, v.orelse)):
                    env['#modes:' + t.id] = [v.body.value, v.orelse.value]
                else:
                    env.pop('#modes:' + t.id, None)
            elif isinstance(t, (ast.Tuple, ast.List)) and self._table_cells(v, f, len(t.elts)) is not None:
                # a, b = TABLE[key] over a module-level table of rows of constants: each name takes one of its column's values
                cols = self._table_cells(v, f, len(t.elts))
                for a, col in zip(t.elts, cols):
                    if isinstance(a, ast.Name):
                        forget_items(a.id, env)
                        env[a.id] = {'const:%s' % c for c in col}
                        env['#modes:' + a.id] = sorted(set(col))
            elif isinstance(t, (ast.Tuple, ast.List)):
                if isinstance(v, (ast.Tuple, ast.List)) and len(v.elts) == len(t.elts):
                    for a, b in zip(t.elts, v.elts):
                        assign(a, b, env)
                else:
                    elems = self._tuple_returns(v, env, f, ctx, len(t.elts)) if isinstance(v, ast.Call) else None
                    if elems is not None:
                        # a, b = helper(...): each name gets what the helper returns in that position
                        for a, pv in zip(t.elts, elems):
                            if isinstance(a, ast.Name):
                                env[a.id] = set(pv)
                        return
                    pv = self.prov(v, env, f, ctx) if v is not None else {'EXPR'}
                    for a in t.elts:
                        if isinstance(a, ast.Name):
                            env[a.id] = {'unpack:' + x for x in pv} if False else set(pv) | {'UNPACK'}

        def merge_env(envs):
            keys = set().union(*[set(e) for e in envs])
            out = {}
            for k in keys:
                if k.startswith('#expr:'):
                    vals = [e.get(k) for e in envs]
                    if all(v is not None for v in vals) and len({ast.dump(v) for v in vals}) == 1:
                        out[k] = vals[0]
                    continue
                if k.startswith('#item:'):
                    vals = [e.get(k) for e in envs]
                    if all(v is not None for v in vals):
                        out[k] = sorted(set().union(*[set(v) for v in vals]))
                    continue
                if k.startswith('#'):
                    vals = [e.get(k) for e in envs if e.get(k)]
                    if vals:
                        out[k] = sorted(set().union(*[set(v) for v in vals]), key=repr)
                else:
                    out[k] = set().union(*[set(e.get(k, {'UNBOUND'})) for e in envs])
            return out

        def block(stmts, env, guards):
            """-> (env, exits) ; exits True if control never falls through."""
            env = dict(env)
            guards = list(guards)
            for s in stmts:
                if isinstance(s, ast.Assign):
                    expr_effects(s.value, env, guards)
                    for t in s.targets:
                        assign(t, s.value, env)
                elif isinstance(s, ast.AugAssign):
                    expr_effects(s.value, env, guards)
                elif isinstance(s, ast.AnnAssign):
                    if s.value is not None:
                        expr_effects(s.value, env, guards)
                        assign(s.target, s.value, env)
                elif isinstance(s, ast.Expr):
                    expr_effects(s.value, env, guards)
                    if isinstance(s.value, ast.Yield) and s.value.value is not None:
                        # a generator hands out its elements one by one: what iterating over a call of it gives
                        rets.update(self.prov(s.value.value, env, f, ctx))
                    elif isinstance(s.value, ast.YieldFrom):
                        rets.update(self.prov(s.value.value, env, f, ctx))
                    if isinstance(s.value, ast.Call) and ast.unparse(s.value.func) in ('sys.exit', 'os._exit'):
                        return env, True
                elif isinstance(s, ast.Return):
                    if s.value is not None:
                        expr_effects(s.value, env, guards)
                        rets.update(self.prov(s.value, env, f, ctx))
                        if isinstance(s.value, ast.Tuple):
                            rec = self.tuple_rets.setdefault((f.qn, ctx), [])
                            rec.append([self.prov(x, env, f, ctx) for x in s.value.elts])
                        else:
                            self.tuple_rets.setdefault((f.qn, ctx), []).append(None)
                    return env, True
                elif isinstance(s, ast.Raise):
                    if s.exc is not None:
                        expr_effects(s.exc, env, guards)
                    return env, True
                elif isinstance(s, ast.Assert):
                    expr_effects(s.test, env, guards)
                    guards = guards + [G(True, s.test, origin=f)]
                elif isinstance(s, ast.If):
                    expr_effects(s.test, env, guards)
                    test = expand(s.test, env)
                    e1, r1 = block(s.body, env, guards + [G(True, test, origin=f)])
                    e2, r2 = block(s.orelse, env, guards + [G(False, test, origin=f)])
                    if r1 and r2:
                        return env, True
                    if r1:
                        env = e2
                        guards = guards + [G(False, test, origin=f)]
                    elif r2:
                        env = e1
                        guards = guards + [G(True, test, origin=f)]
                    else:
                        env = merge_env([e1, e2])
                elif isinstance(s, (ast.For, ast.AsyncFor)):
                    expr_effects(s.iter, env, guards)
                    pv = self.prov(s.iter, env, f, ctx)
                    if isinstance(s.iter, ast.Call) and ast.unparse(s.iter.func) == 'range':
                        pv = {'INT'}
                    for x in ast.walk(s.target):
                        if isinstance(x, ast.Name):
                            forget_items(x.id, env)
                            env[x.id] = set(pv)
                    if isinstance(s.iter, (ast.Tuple, ast.List)) and isinstance(s.target, (ast.Tuple, ast.List)) and s.iter.elts and \
                            all(isinstance(r, (ast.Tuple, ast.List)) and len(r.elts) == len(s.target.elts) for r in s.iter.elts):
                        # a literal table of rows: each loop variable takes the values of its own column
                        for i, a in enumerate(s.target.elts):
                            if isinstance(a, ast.Name):
                                col = set()
                                for r in s.iter.elts:
                                    col |= self.prov(r.elts[i], env, f, ctx)
                                env[a.id] = col
                    if isinstance(s.iter, ast.Call) and ast.unparse(s.iter.func) == 'zip' \
                            and isinstance(s.target, ast.Tuple):
                        for a, b in zip(s.target.elts, s.iter.args):
                            if isinstance(a, ast.Name):
                                env[a.id] = self.prov(b, env, f, ctx)
                    if isinstance(s.iter, ast.Call) and ast.unparse(s.iter.func) == 'enumerate' \
                            and isinstance(s.target, ast.Tuple) and len(s.target.elts) == 2 and s.iter.args:
                        inner = s.iter.args[0]
                        tgt = s.target.elts[1]
                        pv2 = self.prov(inner, env, f, ctx)
                        for x in ast.walk(tgt):
                            if isinstance(x, ast.Name):
                                env[x.id] = set(pv2)
                    lg = guards + [G(None, s, 'loop', origin=f)]
                    e1, _ = block(s.body, env, lg)
                    e1b, _ = block(s.body, merge_env([env, e1]), lg) if False else (e1, None)
                    env = merge_env([env, e1])
                    if s.orelse:
                        env, r = block(s.orelse, env, guards)
                elif isinstance(s, ast.While):
                    expr_effects(s.test, env, guards)
                    e1, _ = block(s.body, env, guards + [G(None, s, 'loop', origin=f), G(True, s.test, origin=f)])
                    env = merge_env([env, e1])
                elif isinstance(s, (ast.With, ast.AsyncWith)):
                    for it in s.items:
                        expr_effects(it.context_expr, env, guards)
                        if isinstance(it.optional_vars, ast.Name):
                            env[it.optional_vars.id] = {'HANDLE'}
                    env, r = block(s.body, env, guards)
                    if r:
                        return env, True
                elif isinstance(s, ast.Try):
                    e1, r1 = block(s.body, env, guards)
                    if s.orelse and not r1:
                        e1, r1 = block(s.orelse, e1, guards)
                    outs = [] if r1 else [e1]
                    for h in s.handlers:
                        eh, rh = block(h.body, merge_env([env, e1]), guards + [G(None, h, 'except', origin=f)])
                        if not rh:
                            outs.append(eh)
                    if s.finalbody:
                        base = merge_env(outs) if outs else merge_env([env, e1])
                        ef, rf = block(s.finalbody, base, guards)
                        if rf or not outs:
                            return ef, True
                        env = ef
                        continue
                    if not outs:
                        return env, True
                    env = merge_env(outs)
                elif isinstance(s, (ast.FunctionDef, ast.AsyncFunctionDef, ast.ClassDef)):
                    pass
                elif isinstance(s, ast.Delete):
                    pass
            return env, False

        body = f.node.body if isinstance(f.node.body, list) else [ast.Return(f.node.body)]
        block(body, env0, [])
        return effects, rets

    def _is_tdda_method(self, f, call, ctx):
        ts, kind = self.prog.resolve_call(f, call, ctx)
        return kind == 'resolved' and bool(ts)

    def _param_default_target(self, f, pname):
        d = f.defaults.get(pname)
        if d is None or (isinstance(d, ast.Constant) and d.value is None):
            # `if loader is None: loader = default_fn` idiom
            for n in ast.walk(f.node):
                if isinstance(n, ast.Assign) and len(n.targets) == 1 and isinstance(n.targets[0], ast.Name) \
                        and n.targets[0].id == pname and isinstance(n.value, (ast.Name, ast.Attribute)):
                    s = self.prog.resolve_expr(f.mod, n.value)
                    if s is not None and s.kind == 'func':
                        return self.prog.funcs[s.target]
            # `loader = loader or default_fn` idiom inside the body
            for n in ast.walk(f.node):
                if isinstance(n, ast.Assign) and len(n.targets) == 1 and isinstance(n.targets[0], ast.Name) \
                        and n.targets[0].id == pname and isinstance(n.value, ast.BoolOp):
                    for v in n.value.values:
                        s = self.prog.resolve_expr(f.mod, v) if isinstance(v, (ast.Name, ast.Attribute)) else None
                        if s is not None and s.kind == 'func' and not (isinstance(v, ast.Name) and v.id == pname):
                            return self.prog.funcs[s.target]
            return None
        if isinstance(d, (ast.Name, ast.Attribute)):
            s = self.prog.resolve_expr(f.mod, d)
            if s is not None and s.kind == 'func':
                return self.prog.funcs[s.target]
        return None


def fold_bool(e):
    """Truth value of a guard made of constants: True / False / None (unknown)."""
    if isinstance(e, ast.Constant):
        return bool(e.value)
    if isinstance(e, ast.UnaryOp) and isinstance(e.op, ast.Not):
        v = fold_bool(e.operand)
        return None if v is None else (not v)
    if isinstance(e, ast.BoolOp):
        vals = [fold_bool(v) for v in e.values]
        if isinstance(e.op, ast.And):
            if any(v is False for v in vals):
                return False
            return True if all(v is True for v in vals) else None
        if any(v is True for v in vals):
            return True
        return False if all(v is False for v in vals) else None
    if isinstance(e, ast.Compare) and len(e.ops) == 1 and isinstance(e.left, ast.Constant) \
            and isinstance(e.comparators[0], ast.Constant):
        a, b = e.left.value, e.comparators[0].value
        op = e.ops[0]
        if isinstance(op, (ast.Is, ast.Eq)):
            return a == b if isinstance(op, ast.Eq) else (a is b or (a == b and type(a) is type(b)))
        if isinstance(op, (ast.IsNot, ast.NotEq)):
            return a != b if isinstance(op, ast.NotEq) else not (a is b or (a == b and type(a) is type(b)))
    return None


def guard_has(guards, pol, pred):
    """Is there a guard with this polarity whose expression satisfies pred?"""
    return any(g.kind == 'if' and g.pol == pol and pred(g.expr) for g in guards)
