"""Whole-tree behaviour-preserving variants applied to every property:
reformat (ast.unparse of every module: comments gone, every line number moved)."""
import ast
import sys, os
HERE = os.path.dirname(os.path.dirname(os.path.abspath(__file__)))
if HERE not in sys.path:
    sys.path.insert(0, HERE)
from sa.model import read_tree
from sa.report import load_known


def reformat_overlay(root=None):
    tree = read_tree(root)
    return {rel: ast.unparse(ast.parse(src)) + '\n' for rel, src in tree.items()}


def blank_lines_overlay(root=None):
    tree = read_tree(root)
    return {rel: '\n\n\n' + src for rel, src in tree.items()}


def run(pid, root=None):
    import check
    known = {(k['property'], k['rule'], k['key']) for k in load_known().get('findings', [])}
    base = check.analyse(pid, 'quick', root=root)
    b = {(o.rule, o.key) for o in base.obs if not o.ok and (pid, o.rule, o.key) not in known}
    out = []
    for name, ov in (('reformat-whole-tree', reformat_overlay(root)), ('shift-every-line', blank_lines_overlay(root))):
        try:
            r = check.analyse(pid, 'quick', overlay=ov, root=root)
        except Exception as e:
            out.append((name, 'noisy', 'analysis failed: %s' % e))
            continue
        v = {(o.rule, o.key) for o in r.obs if not o.ok and (pid, o.rule, o.key) not in known}
        floors = [(x, c, f) for x, c, f in r.floors if c < f]
        new = sorted(v - b)
        newdef = [d for d in getattr(r, 'deferred', []) if d not in getattr(base, 'deferred', [])]
        out.append((name, 'silent' if not new and not floors and not newdef else 'noisy', '%r %r %r' % (new[:3], floors, newdef[:1])))
    return out


if __name__ == '__main__':
    for pid in sys.argv[1:] or ['C%02d' % i for i in range(1, 20) if i != 18]:
        for name, st, msg in run(pid):
            print(pid, name, st, msg if st != 'silent' else '')
