from .driver import M, E

CF = 'tdda/referencetest/checkfiles.py'
BC = 'tdda/referencetest/basecomparison.py'

VARIANTS = [
    M('C15', 'revert-fix-F06-expected_map', E(CF, "                    expected_map[iexpected] = i\n", "                    actual_map[iexpected] = i\n"),
      rule='C15-MIRROR', key='check_strings'),
    M('C15', 'artefacts-also-when-temporaries-requested', E(CF, "        if ndiffs > 0:\n            if first_error:", "        if ndiffs > 0 or create_temporaries:\n            if first_error:"),
      rule='C15-ONLYFAIL', key='assertStringCorrect'),
    M('C15', 'artefacts-unconditional', E(CF, "        if ndiffs > 0:\n            if first_error:\n                self.info(msgs, first_error)\n            self.add_failures(",
                                          "        if first_error:\n            self.info(msgs, first_error)\n        if True:\n            self.add_failures("),
      rule='C15-ONLYFAIL', key='assertTextFileCorrect'),
    M('C15', 'raw-actual-written-beside-the-reference', E(CF, "                    tmpActualPath = os.path.join(\n                        self.tmp_dir, 'actual-raw-' + commonname\n                    )",
                                                          "                    tmpActualPath = os.path.join(\n                        os.path.dirname(expected_path), 'actual-raw-' + commonname\n                    )"),
      rule='C15-TMPDIR', key='assertStringCorrect'),
    M('C15', 'post-processed-name-not-made-relative', E(CF, "            diffActual = os.path.join(self.tmp_dir, 'actual-' + commonname)", "            diffActual = os.path.join(self.tmp_dir, actual_path or commonname)"),
      rule='C15-TMPDIR', key='diffActual' if False else 'assert'),
    M('C15', 'command-names-unwritten-file', E(CF, "            self.write_file(\n                diffExpected,\n                (differ or '') + reconstruction.expected_lines(),\n                guide=guide,\n            )\n", ""),
      rule='C15-CMDFILES', key='add_failures'),
    M('C15', 'refactor-rename-first_error', E(CF, "first_error", "first_err", count=None), kind='refactor'),
    M('C15', 'refactor-extract-tmp-helper', [E(CF, "                    tmpActualPath = os.path.join(\n                        self.tmp_dir, 'actual-raw-' + commonname\n                    )",
                                               "                    tmpActualPath = self.tmp_path_for(commonname, prefix='actual-raw-')")], kind='refactor'),
]

VARIANTS += [
    M('C15', 'revert-fix-raw-artefact-after-removals', E(CF, "                actual=raw_actual,\n                expected=raw_expected,", "                actual=actual,\n                expected=expected,"),
      rule='C15-RAWLINES', key='check_strings'),
    M('C15', 'raw-copy-taken-after-preprocess', E(CF, "        raw_actual = actual\n        raw_expected = expected\n        if preprocess:\n            expected = preprocess(expected)\n            actual = preprocess(actual)\n",
                                                  "        if preprocess:\n            expected = preprocess(expected)\n            actual = preprocess(actual)\n        raw_actual = actual\n        raw_expected = expected\n"),
      rule='C15-RAWLINES', key='check_strings'),
    M('C15', 'normalise-once-hoisted', E(CF, "        raw_actual = actual\n        raw_expected = expected\n", "        if lstrip or rstrip:\n            actual = [normalize(s) for s in actual]\n            expected = [normalize(s) for s in expected]\n        raw_actual = actual\n        raw_expected = expected\n"),
      rule='C15-RAWLINES', key='check_strings'),
    M('C15', 'refactor-raw-copies-renamed', [E(CF, "raw_actual", "given_actual", count=None), E(CF, "raw_expected", "given_expected", count=None)], kind='refactor'),
]

BCM = 'tdda/referencetest/basecomparison.py'
RTF = 'tdda/referencetest/referencetest.py'
VARIANTS += [
    M('C15', 'configured-dir-dropped-when-missing', E(BCM, "        self.tmp_dir = tmp_dir or tempfile.gettempdir()", "        if not tmp_dir or not os.path.isdir(tmp_dir):\n            tmp_dir = tempfile.gettempdir()\n        self.tmp_dir = tmp_dir"),
      rule='C15-TMPCFG', key='keeps-argument'),
    M('C15', 'text-comparison-built-without-tmp_dir', E(RTF, "            verbose=self.verbose,\n            tmp_dir=self.tmp_dir,\n        )", "            verbose=self.verbose,\n        )"),
      rule='C15-TMPCFG', key='FilesComparison(tmp_dir=)'),
    M('C15', 'refactor-tmp_dir-conditional-expression', E(BCM, "        self.tmp_dir = tmp_dir or tempfile.gettempdir()", "        self.tmp_dir = tmp_dir if tmp_dir else tempfile.gettempdir()"), kind='refactor'),
    M('C15', 'refactor-tmp_dir-if-statement', E(BCM, "        self.tmp_dir = tmp_dir or tempfile.gettempdir()", "        if not tmp_dir:\n            tmp_dir = tempfile.gettempdir()\n        self.tmp_dir = tmp_dir"), kind='refactor'),
]

VARIANTS += [
    M('C15', 'empty-actual-treated-as-absent', E(CF, "                if actual is not None and not raw_actual_path:", "                if actual and not raw_actual_path:"), rule='C15-EMPTY', key='actual'),
    M('C15', 'refactor-content-test-reordered', E(CF, "                if actual is not None and not raw_actual_path:", "                if not raw_actual_path and actual is not None:"), kind='refactor'),
]

VARIANTS += [
    M('C15', 'post-processed-files-take-their-final-newline-from-different-guides', E(CF, "            self.write_file(\n                diffActual,\n                (differ or '') + reconstruction.actual_lines(),\n                guide=guide,\n            )", "            self.write_file(\n                diffActual,\n                (differ or '') + reconstruction.actual_lines(),\n                guide=actual_path or expected_path,\n            )"),
      rule='C15-SAMEGUIDE', key='add_failures'),
    M('C15', 'refactor-guide-renamed', E(CF, "guide = expected_path or actual_path", "guide = expected_path or actual_path  # same for both files"), kind='refactor'),
    M('C15', 'binary-offset-off-by-one', E('tdda/referencetest/checkfiles.py', "'First difference at byte offset %d, %s.'\n                % (binaryinfo.byteoffset, lengthinfo),", "'First difference at byte offset %d, %s.'\n                % (binaryinfo.byteoffset + 1, lengthinfo),"), rule='C15-ARTEFACTS', key='check_binary_file'),
    M('C15', 'defaults-stored-on-the-base-class', E(RTF, "                cls.tmp_dir = kwargs[k]", "                ReferenceTest.tmp_dir = kwargs[k]"),
      rule='C15-DEFAULTS', key='set_defaults'),
]

VARIANTS += [
    M('C15', 'post-processed-pair-taken-from-the-shared-message-object', [
        E(BC, "    def message(self):\n        return '\\n'.join(self.lines)", "    def last_reconstruction(self):\n        return self.reconstructions[-1] if self.reconstructions else None\n\n    def message(self):\n        return '\\n'.join(self.lines)"),
        E(CF, "            self.add_failures(\n                msgs,\n                reconstruction,\n                actual_path,", "            self.add_failures(\n                msgs,\n                msgs.last_reconstruction(),\n                actual_path,")],
      rule='C15-ARTEFACTS', key='check_files:'),
]

VARIANTS += [
    M('C15', 'artefacts-opened-without-truncation', E(CF, "        with open(filename, 'w', encoding=enc) as f:", "        with os.fdopen(os.open(filename, os.O_WRONLY | os.O_CREAT, 0o600), 'w', encoding=enc) as f:"),
      rule='C15-ARTEFACTS', key='after-an-earlier-longer-failure'),
    M('C15', 'refactor-artefacts-opened-with-truncation', E(CF, "        with open(filename, 'w', encoding=enc) as f:", "        with os.fdopen(os.open(filename, os.O_WRONLY | os.O_CREAT | os.O_TRUNC, 0o600), 'w', encoding=enc) as f:"), kind='refactor'),
]
