from .driver import M, E

BC = 'tdda/constraints/baseconstraints.py'
BS = 'tdda/constraints/base.py'
PC = 'tdda/constraints/pd/constraints.py'

VARIANTS = [
    M('C02', 'revert-fix-F16b-rex-null', E(BC, "        if constraint.value is None:  # a null value is not considered to be\n            return True               # an active constraint\n", ""),
      rule='C02-GUARD', key='verify_rex_constraint'),
    M('C02', 'null-test-after-type-test-length', E(BC, "        value = constraint.value\n        if self.is_null(value):   # a null minimum length is not considered\n            return True           # to be an active constraint, so is always\n                                  # satisfied\n\n        if self.get_tdda_type(colname) != 'string':\n            return False\n\n        m = self.get_min_length(colname)",
                                                   "        value = constraint.value\n        if self.get_tdda_type(colname) != 'string':\n            return False\n\n        if self.is_null(value):   # a null minimum length is not considered\n            return True           # to be an active constraint, so is always\n                                  # satisfied\n\n        m = self.get_min_length(colname)"),
      rule='C02-GUARD', key='verify_min_length_constraint'),
    M('C02', 'missing-field-test-dropped', E(BC, "        if not self.column_exists(colname):\n            return False\n\n        value = constraint.value\n        if self.is_null(value):   # a null value is not considered to be an\n            return True           # active constraint, so is always satisfied\n        result = self.get_null_count(colname) <= value",
                                             "        value = constraint.value\n        if self.is_null(value):   # a null value is not considered to be an\n            return True           # active constraint, so is always satisfied\n        result = self.get_null_count(colname) <= value"),
      rule='C02-GUARD', key='verify_max_nulls_constraint'),
    M('C02', 'open-min-made-inclusive', E(BC, "        elif precision == 'open':\n            result = m > value", "        elif precision == 'open':\n            result = m >= value"),
      rule='C02-SEM', key='verify_min_constraint'),
    M('C02', 'sign-positive-on-max', E(BC, "        elif value == 'positive':\n            result = m > 0", "        elif value == 'positive':\n            result = M > 0"),
      rule='C02-SEM', key='positive'),
    M('C02', 'sign-nonneg-strict', E(BC, "        elif value == 'non-negative':\n            result = m >= 0", "        elif value == 'non-negative':\n            result = m > 0"),
      rule='C02-SEM', key='non-negative'),
    M('C02', 'max-nulls-strict', E(BC, "result = self.get_null_count(colname) <= value", "result = self.get_null_count(colname) < value"),
      rule='C02-SEM', key='verify_max_nulls_constraint'),
    M('C02', 'dates-lose-closed-comparison', E(BC, "        elif (precision == 'closed' or isinstance(value, datetime.datetime)\n                                    or isinstance(value, datetime.date)):\n            result = M <= value", "        elif precision == 'closed':\n            result = M <= value"),
      rule='C02-SEM', key='dates-closed'),
    M('C02', 'fuzz-factors-swapped', E(BS, "        return v * ((1 - epsilon) if v >= 0 else (1 + epsilon))", "        return v * ((1 + epsilon) if v >= 0 else (1 - epsilon))"),
      rule='C02-FUZZ', key='fuzz_down'),
    M('C02', 'fuzz-sign-test-wrong', E(BS, "        return v * ((1 + epsilon) if v >= 0 else (1 - epsilon))", "        return v * ((1 + epsilon) if v <= 0 else (1 - epsilon))"),
      rule='C02-FUZZ', key='fuzz_up'),
    M('C02', 'tolerance-applied-to-aggregate', E(BC, "            result = fuzzy_greater_than(m, value, self.epsilon)", "            result = fuzzy_less_than(value, m, self.epsilon)"),
      rule='C02-FUZZ', key='verify_min_constraint'),
    M('C02', 'sloppy-int-from-any-real', E(BC, "            elif 'int' in allowed_types and actual_type == 'real':\n                result = self.get_non_integer_values_count(colname) == 0", "            elif 'int' in allowed_types and actual_type == 'real':\n                result = True"),
      rule='C02-SEM', key='type-table'),
    M('C02', 'failure-counted-as-pass-too', E(BS, "                if satisfied:\n                    passes += 1\n                else:\n                    failures += 1", "                passes += 1\n                if not satisfied:\n                    failures += 1"),
      rule='C02-COUNT', key='verdicts='),
    M('C02', 'unknown-kind-counted-failed', E(BS, "            else:\n                satisfied = None\n            field_results[c.kind] = satisfied", "            else:\n                satisfied = None\n                failures += 1\n            field_results[c.kind] = satisfied"),
      rule='C02-COUNT', key='verdicts='),
    M('C02', 'totals-not-accumulated', E(BS, "        results.passes += passes\n", "        results.passes = passes\n"),
      rule='C02-COUNT', key='verdicts='),
    M('C02', 'registry-kind-swapped', E(BC, "            'min_length': self.verify_min_length_constraint,\n            'max_length': self.verify_max_length_constraint,", "            'min_length': self.verify_max_length_constraint,\n            'max_length': self.verify_min_length_constraint,"),
      rule='C02-REG', key='verifier:'),
    M('C02', 'max-verifier-not-mirror', E(BC, "        if self.is_null(M):       # If there are no values, no value can\n            return True           # the maximum constraint", "        if self.is_null(M):       # If there are no values, no value can\n            return False          # the maximum constraint"),
      rule='C02-MIRROR', key='verify_min_constraint'),
    M('C02', 'refactor-rename-value-local', E(BC, "        value = constraint.value\n        if self.is_null(value):   # a null value is not considered to be an\n            return True           # active constraint, so is always satisfied\n        result = self.get_null_count(colname) <= value\n\n        if bool(result) or not detect:\n            return result\n        self.detect_max_nulls_constraint(colname, value)",
                                              "        limit = constraint.value\n        if self.is_null(limit):   # a null value is not considered to be an\n            return True           # active constraint, so is always satisfied\n        result = self.get_null_count(colname) <= limit\n\n        if bool(result) or not detect:\n            return result\n        self.detect_max_nulls_constraint(colname, limit)"),
      kind='refactor'),
    M('C02', 'refactor-sign-arms-reordered', E(BC, "        elif value == 'positive':\n            result = m > 0\n        elif value == 'non-negative':\n            result = m >= 0\n", "        elif value == 'non-negative':\n            result = m >= 0\n        elif value == 'positive':\n            result = m > 0\n"),
      kind='refactor'),
]

VARIANTS += [
    M('C02', 'rex-list-as-one-alternation', E(PC, "        rexes = [re.compile(r, RE_FLAGS) for r in rexes]", "        rexes = [re.compile('|'.join('(?:%s)' % r for r in rexes), RE_FLAGS)]"), rule='C02-SEM', key='each-expression'),
]

VARIANTS += [
    M('C02', 'revert-fix-iteritems', E(PC, "        return all(type(v) is bool for i, v in nn.items())", "        return all(type(v) is bool for i, v in nn.iteritems())"), rule='C02-IEF', key='DENYAPI:iteritems'),
]

VARIANTS += [
    M('C02', 'date-flag-set-when-type-key-is-met', [E(BS, "            is_date = 'type' in c and c['type'] == 'date'\n", "            is_date = False\n"),
                                                    E(BS, "                    if (is_date and kind in DATE_VALUED_CONSTRAINTS\n                            and constraint.value is not None):",
                                                      "                    if kind == 'type':\n                        is_date = constraint.value == 'date'\n                    elif (is_date and kind in DATE_VALUED_CONSTRAINTS\n                            and constraint.value is not None):")],
      rule='C02-KEYORDER', key='initialize_from_dict'),
    M('C02', 'refactor-date-flag-from-get', E(BS, "            is_date = 'type' in c and c['type'] == 'date'\n", "            is_date = c.get('type') == 'date'\n"), kind='refactor'),
    M('C02', 'sign-verifier-rejects-booleans', E(BC, "        if type(m) not in (bool, int, long_type, float):", "        if type(m) not in (int, long_type, float):"), rule='C02-VERDICT', key='verify_sign_constraint'),
    M('C02', 'max-nulls-strict', E(BC, "        result = self.get_null_count(colname) <= value", "        result = self.get_null_count(colname) < value"), rule='C02-VERDICT', key='verify_max_nulls_constraint'),
]

VARIANTS += [
    M('C02', 'exclusions-appended-to-the-constraint-list', [E(BC, "            exclusions = exclusions or []\n\n            violations = (set(actual_values) - set(allowed_values)\n                                             - set(exclusions))",
                                                                "            allowed_values += exclusions or []\n\n            violations = set(actual_values) - set(allowed_values)")],
      rule='C02-KEEPS', key='lists-kept'),
    M('C02', 'table-built-from-the-printed-selection', E(PC, "        fields = ver.fields\n", "        fields = OrderedDict((k, v) for k, v in ver.fields.items() if ver.report == 'all' or v.failures)\n"),
      rule='C02-FRAMEALL', key='PandasVerification'),
    M('C02', 'whole-numbers-counted-with-a-tolerance', E(PC, "                   - (values.astype(int) == values).astype(int).sum())", "                   - np.isclose(values.astype(int), values).astype(int).sum())"),
      rule='C02-EXACTSTAT', key='calc_non_integer_values_count'),
    M('C02', 'bound-converted-instead-of-the-statistic', E(BC, "            m = self.to_datetime(m)\n\n        if not self.types_compatible(m, value):\n            result = False\n        elif (precision == 'closed' or isinstance(value, datetime.datetime)\n                                    or isinstance(value, datetime.date)):\n            result = m >= value",
                                                            "            value = self.to_datetime(value)\n\n        if not self.types_compatible(m, value):\n            result = False\n        elif (precision == 'closed' or isinstance(value, datetime.datetime)\n                                    or isinstance(value, datetime.date)):\n            result = m >= value"),
      rule='C02-VERDICT', key='min'),
    M('C02', 'refactor-exclusions-in-a-new-list', E(BC, "            exclusions = exclusions or []\n", "            exclusions = list(exclusions or ())\n"), kind='refactor'),
]
