"""Behaviour-preserving refactorings written by independent agents (refactors/<name>/patch.diff) as thorough-tier
variants: every one must leave the property's rules silent.  The patch is applied with patch(1) to copies of the
touched files in a private temporary directory (removed at once); the analysis runs on the resulting overlay.

refactors/EXPECTED.json lists the (refactoring, property) pairs for which a different outcome is accepted, with the
reason: 'analysis-error' (a rule cannot interpret the new shape and fails closed, exit 2, never VIOLATION) or
'known-defect-moved' (the refactoring moves a recorded known finding to a new call site, where it is reported again)."""
import json
import multiprocessing
import os
import re
import shutil
import subprocess
import tempfile

from sa.model import read_tree, AnalysisError
from sa.report import load_known

HERE = os.path.dirname(os.path.dirname(os.path.abspath(__file__)))
RDIR = os.path.join(HERE, 'refactors')


def overlay_for(patch_path, tree):
    txt = open(patch_path).read()
    rels = re.findall(r'^\+\+\+ b/(\S+)', txt, re.M)
    tmp = tempfile.mkdtemp(prefix='verif_ref_')
    try:
        for rel in rels:
            if rel not in tree:
                return None
            dst = os.path.join(tmp, rel)
            os.makedirs(os.path.dirname(dst), exist_ok=True)
            with open(dst, 'w') as f:
                f.write(tree[rel])
        r = subprocess.run(['patch', '-p1', '-s', '-f', '--no-backup-if-mismatch', '-i', patch_path], cwd=tmp, capture_output=True, text=True)
        if r.returncode != 0:
            return None
        return {rel: open(os.path.join(tmp, rel)).read() for rel in rels}
    finally:
        shutil.rmtree(tmp, ignore_errors=True)


def _one(args):
    name, pid, root, expected, base, base_deferred, relevant = args
    import check
    tree = read_tree(root)
    label = 'agent-refactor-' + name
    txt = open(os.path.join(RDIR, name, 'patch.diff')).read()
    touched = set(re.findall(r'^\+\+\+ b/(\S+)', txt, re.M))
    if relevant is not None and not (touched & relevant):
        return (label, 'silent', 'touches none of the files this property reads')
    ov = overlay_for(os.path.join(RDIR, name, 'patch.diff'), tree)
    if ov is None:
        return (label, 'skipped', 'patch no longer applies to the current tree')
    known = {(k['property'], k['rule'], k['key']) for k in load_known().get('findings', [])}
    want = expected.get(name, {}).get(pid)
    try:
        run = check.analyse(pid, 'quick', overlay=ov, root=root)
        newdef = [d for d in getattr(run, 'deferred', []) if d not in base_deferred]
        if newdef:
            raise AnalysisError(newdef[0])
    except AnalysisError as e:
        if want and want.startswith('analysis-error'):
            return (label, 'fail-closed', str(e)[:120])
        return (label, 'noisy', 'refactoring made the analysis fail: %s' % e)
    new = sorted({(o.rule, o.key) for o in run.obs if not o.ok and (run.pid, o.rule, o.key) not in known} - base)
    floors = [(r, c, f) for r, c, f in run.floors if c < f]
    if floors and not new:
        if want and want.startswith('analysis-error'):
            return (label, 'fail-closed', 'floor %r' % (floors[:2],))
        return (label, 'noisy', 'refactoring dropped below a floor: %r' % (floors[:2],))
    if new:
        if want and want.startswith('known-defect-moved'):
            return (label, 'known-defect-moved', '%s %s' % new[0])
        return (label, 'noisy', 'refactoring reported: %r' % (new[:3],))
    return (label, 'silent', '')


def run(pid, root=None):
    if not os.path.isdir(RDIR):
        return []
    expected = {}
    ep = os.path.join(RDIR, 'EXPECTED.json')
    if os.path.exists(ep):
        expected = json.load(open(ep))
    names = sorted(n for n in os.listdir(RDIR) if os.path.isfile(os.path.join(RDIR, n, 'patch.diff')))
    if not names:
        return []
    import check
    b = check.analyse(pid, 'quick', root=root)
    base = {(o.rule, o.key) for o in b.obs if not o.ok}
    base_deferred = list(getattr(b, 'deferred', []))
    # the files this property's rules look at: where its obligations sit, plus the files its statement is anchored in
    relevant = {o.rel for o in b.obs if o.rel}
    try:
        for l in open(os.path.join(HERE, 'properties.jsonl')):
            d = json.loads(l)
            if d['id'] == pid:
                relevant |= set(d['anchors'].get('files', []))
    except OSError:
        relevant = None
    if relevant is not None and len(relevant) < 2:
        relevant = None
    with multiprocessing.Pool(min(16, len(names))) as pool:
        return pool.map(_one, [(n, pid, root, expected, base, base_deferred, relevant) for n in names])
