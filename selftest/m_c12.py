from .driver import M, E

GT = 'tdda/referencetest/gentest.py'
BP = 'tdda/referencetest/gentest_boilerplate.py'

VARIANTS = [
    M('C12', 'stderr-test-dropped', E(GT, "            if self.check_stderr:\n                path = as_join_repr(self.stderr_path(), self.cwd,", "            if self.check_stderr and self.check_stdout:\n                path = as_join_repr(self.stderr_path(), self.cwd,"),
      rule='C12-ONEASSERT', key='stderr'),
    M('C12', 'binary-files-skipped', E(GT, "                else:\n                    f.write(test_def(testname, actual_path, 'BinaryFile',\n                                     ref_path))", "                else:\n                    continue"),
      rule='C12-ONEASSERT', key='per-file'),
    M('C12', 'reference-compared-with-itself', E(GT, "                    f.write(test_def(testname, actual_path, 'TextFile',\n                                     ref_path, patterns,", "                    f.write(test_def(testname, ref_path, 'TextFile',\n                                     ref_path, patterns,"),
      rule='C12-ROLES', key='test_def:testname'),
    M('C12', 'stdout-test-checks-stderr-reference', E(GT, "                path = as_join_repr(self.stdout_path(), self.cwd,\n                                    self.ref_subdir())\n                exc = self.exclusions.get('STDOUT')", "                path = as_join_repr(self.stderr_path(), self.cwd,\n                                    self.ref_subdir())\n                exc = self.exclusions.get('STDOUT')"),
      rule='C12-ROLES', key="test_def:'stdout'"),
    M('C12', 'command-not-rerun', E(BP, "         cls.duration) = exec_command(cls.command, cls.cwd)", "         cls.duration) = (None, None, None, %(EXIT_CODE)d, 0)"), rule='C12-ORDER', key='setUpClass'),
    M('C12', 'cleanup-after-run', E(BP, "        %(REMOVE_PREVIOUS_OUTPUTS)s\n        (cls.output,\n         cls.error,\n         cls.exception,\n         cls.exit_code,\n         cls.duration) = exec_command(cls.command, cls.cwd)", "        (cls.output,\n         cls.error,\n         cls.exception,\n         cls.exit_code,\n         cls.duration) = exec_command(cls.command, cls.cwd)\n        %(REMOVE_PREVIOUS_OUTPUTS)s"),
      rule='C12-ORDER', key='setUpClass'),
    M('C12', 'exit-code-from-last-run', E(GT, "        r = self.results[1]\n        reference_files = self.reference_files[1]  # ones from run 1", "        r = self.results[self.iterations]\n        reference_files = self.reference_files[1]  # ones from run 1"),
      rule='C12-EXITCODE', key='EXIT_CODE'),
    M('C12', 'test-names-may-collide', E(GT, "        if testname in self.test_names:\n            self.test_qualifier += 1\n            testname += str(self.test_qualifier)\n        self.test_names.add(testname)", "        pass"), rule='C12-UNIQUE', key='test_name'),
    M('C12', 'lenient-decode', E(GT, "                self.out = self.out.decode('UTF-8')", "                self.out = self.out.decode('UTF-8', errors='ignore')"), rule='C12-STRICT', key='self.out'),
    M('C12', 'blanket-exclusion-pattern', E(GT, "        rexes = extract(common)\n        substrings = []", "        rexes = extract(common)\n        rexes.append('.*')\n        substrings = []"), rule='C12-EXCLPROV', key='update_exclusions_with_specifics'),
    M('C12', 'refactor-stream-paths-local', E(GT, "                path = as_join_repr(self.stdout_path(), self.cwd,\n                                    self.ref_subdir())\n                exc = self.exclusions.get('STDOUT')", "                sp = self.stdout_path()\n                path = as_join_repr(sp, self.cwd, self.ref_subdir())\n                exc = self.exclusions.get('STDOUT')"),
      kind='refactor'),
]

CF = 'tdda/referencetest/checkfiles.py'
VARIANTS += [
    M('C12', 'text-files-read-leniently', E(CF, "            with open(actual_path, encoding=enc) as f:", "            with open(actual_path, encoding=enc, errors='ignore') as f:"), rule='C12-STRICT', key='check_file'),
]

VARIANTS += [
    M('C12', 'preexisting-outputs-not-cleaned', E(GT, "                for ref_path in self.reference_files[1]]", "                for ref_path in self.reference_files[1]\n                if ref_path not in self.snapshot]"), rule='C12-CLEANSET', key='generated_file_paths'),
]

VARIANTS += [
    M('C12', 'user-test-reads-the-other-home-flag', E(GT, "                        and (not (homedir and self.user_in_home)))", "                        and (not (homedir and self.cwd_in_home)))"),
      rule='C12-DEADATTR', key='self.user_in_home'),
    M('C12', 'refactor-home-flag-local-alias', E(GT, "                        and (not (homedir and self.user_in_home)))", "                        and (not (homedir and getattr(self, 'user_in_home'))))"), kind='refactor'),
]

VARIANTS += [
    M('C12', 'exclusions-extended-by-characters', E(GT, "                    substrings.append(specific_string)", "                    substrings += specific_string"), rule='C12-WHOLESTR', key='substrings+=specific_string'),
    M('C12', 'refactor-exclusions-extended-by-one-item-list', E(GT, "                    substrings.append(specific_string)", "                    substrings += [specific_string]"), kind='refactor'),
    M('C12', 'path-under-cwd-decided-by-prefix-alone', E(GT, "path.startswith(cwd + os.path.sep)", "path.startswith(cwd)"), rule='C12-JOINREPR', key='as_join_repr'),
]

UT2 = 'tdda/referencetest/utils.py'
VARIANTS += [
    M('C12', 'extension-compared-as-written', E(UT2, "    return os.path.splitext(path)[1].lower()[1:] if path else ''", "    return os.path.splitext(path)[1][1:] if path else ''"), rule='C12-FILEKIND', key='ext=PNG'),
]
