"""Python snippets for the conformance test of sa/pyeval.py: every function f_*() is run by CPython and by the interpreter;
the results must be equal.  (Own code of the verification machinery - nothing of tdda.)"""
from collections import namedtuple, Counter, defaultdict, OrderedDict

Point = namedtuple('Point', 'x y')
TABLE = {'a': 1, 'b': 2}
FLAG = True
COUNTER = 0

if FLAG:
    def chosen(x):
        return 'then-' + x
else:
    def chosen(x):
        return 'else-' + x


class Base(object):
    kind = 'base'
    LEVELS = ('lo', 'hi')
    BOTH = LEVELS + ('top',)

    def __init__(self, v, scale=2):
        self.v = v
        self.scale = scale

    def value(self):
        return self.v * self.scale

    def describe(self):
        return '%s:%s' % (self.kind, self.value())

    @classmethod
    def make(cls, v):
        return cls(v, scale=3)

    @staticmethod
    def twice(x):
        return 2 * x


class Derived(Base):
    kind = 'derived'

    def __init__(self, v):
        Base.__init__(self, v, scale=5)
        self.extra = []

    def value(self):
        return Base.value(self) + 1

    def __getitem__(self, k):
        return 'item-%s' % k


class Box(dict):
    def __init__(self, *a, **k):
        dict.__init__(self, *a, **k)

    def total(self):
        return sum(self.values())


def f_while_else():
    out = []
    i = 0
    while i < 3:
        out.append(i)
        i += 1
    else:
        out.append('done')
    j = 0
    while j < 5:
        if j == 2:
            break
        j += 1
    else:
        out.append('never')
    return out


def f_for_else_continue():
    out = []
    for i in range(5):
        if i % 2:
            continue
        out.append(i)
    else:
        out.append('end')
    for i in range(5):
        if i == 1:
            break
    else:
        out.append('no')
    return out, i


def f_try_finally():
    log = []
    def inner(x):
        try:
            log.append('try')
            if x:
                raise ValueError('bad')
            return 'ok'
        except ValueError as e:
            log.append('caught %s' % e)
            return 'handled'
        finally:
            log.append('finally')
    return inner(0), inner(1), log


def f_try_else_reraise():
    log = []
    try:
        try:
            int('x')
        except KeyError:
            log.append('wrong')
        else:
            log.append('else')
        finally:
            log.append('inner-finally')
    except ValueError:
        log.append('outer')
    try:
        {}['k']
    except (IndexError, KeyError):
        log.append('lookup')
    try:
        [][3]
    except LookupError:
        log.append('base-class')
    return log


def f_comprehensions():
    sq = [x * x for x in range(6) if x % 2 == 0]
    pairs = [(a, b) for a in 'ab' for b in range(2)]
    d = {k: v for k, v in zip('xyz', range(3)) if v}
    s = {c.upper() for c in 'hello'}
    g = sum(x for x in range(10) if x > 6)
    nested = [[y for y in range(x)] for x in range(3)]
    x = 'outer'
    inner = [x for x in range(2)]
    return sq, pairs, d, sorted(s), g, nested, x, inner


def f_slices_unpack():
    L = list(range(10))
    a, *b, c = L
    first, (p, q) = 1, (2, 3)
    return L[2:5], L[::-2], L[-3:], L[:0], a, b, c, first, p, q, 'hello'[1:-1], (1, 2, 3)[::-1]


def f_augassign():
    d = {'n': 1}
    d['n'] += 4
    L = [1, 2]
    L += [3]
    L[0] *= 10
    s = 'a'
    s += 'b' * 2
    t = (1,)
    t += (2,)
    o = Base(3)
    o.v -= 1
    n = 7
    n //= 2
    n **= 2
    n %= 5
    return d, L, s, t, o.v, n


def f_boolops():
    return (0 or 'x'), ('' and 1), (None or [] or 0), (1 and 2 and 3), (not []), (1 < 2 < 3), (1 < 2 > 5), (3 if [] else 4), \
        (None is None), ('a' in 'cat'), (2 not in [1, 3]), ([] == []), ([] is []), (1 == 1.0), (True + True)


def f_strings():
    return '%s-%d-%5.2f|%-4s|%r' % ('a', 3, 2.5, 'x', 'q'), '{0} {name} {0!r}'.format('p', name='n'), f'{1 + 1:03d} {"s"!r} {3.14159:.2f}', \
        'a,b,,c'.split(','), ' x '.strip(), 'abc'.upper().lower().title(), '-'.join(str(i) for i in range(3)), 'ab' * 3, \
        'hello'.replace('l', 'L', 1), 'x=%(x)s y=%(y)d' % {'x': 'X', 'y': 4}, '%s' % (('t',),), 'café'.encode('utf-8'), b'caf\xc3\xa9'.decode('utf-8'), \
        'a\tb'.expandtabs(4), 'Hello'.swapcase(), 'abc'.startswith(('x', 'a')), '%%' % (), '%c' % 65


def f_functions():
    def add(a, b=2, *args, c=3, **kw):
        return a + b + c + sum(args) + sum(kw.values())
    def make_counter():
        count = [0]
        def inc():
            count[0] += 1
            return count[0]
        return inc
    inc = make_counter()
    inc()
    sq = lambda x, y=2: x ** y
    return add(1), add(1, 1, 1, 1, c=0, z=5), inc(), sq(3), sq(2, 3), list(map(lambda x: x + 1, [1, 2])), sorted(['bb', 'a', 'ccc'], key=len, reverse=True), \
        list(filter(None, [0, 1, '', 'x'])), max([3, 1, 2], key=lambda v: -v), chosen('x')


def f_classes():
    b = Base(2)
    d = Derived(2)
    m = Derived.make(1) if False else Base.make(4)
    return b.describe(), d.describe(), m.value(), Base.twice(4), d['k'], isinstance(d, Base), isinstance(b, Derived), d.kind, Base.kind, \
        Base.BOTH, hasattr(d, 'extra'), hasattr(b, 'extra'), getattr(b, 'nothing', 'dflt'), type(d).__name__, d.__class__.__name__, sorted(vars(b))


def f_dict_subclass():
    bx = Box(a=1, b=2)
    bx['c'] = 3
    return bx.total(), sorted(bx.keys()), bx.get('z', 0), 'a' in bx, len(bx)


def f_containers():
    c = Counter('abracadabra')
    dd = defaultdict(list)
    for i, ch in enumerate('abca'):
        dd[ch].append(i)
    od = OrderedDict()
    od['z'] = 1
    od['a'] = 2
    p = Point(1, y=2)
    s = {1, 2, 3}
    s2 = s - {2} | {9}
    L = [3, 1, 2]
    L.sort()
    L.insert(0, 9)
    popped = L.pop()
    d = {'a': 1}
    d.setdefault('b', []).append(1)
    d.update(c=3)
    del d['a']
    return c.most_common(2), dict(dd), list(od), p.x + p.y, p._replace(x=5), sorted(s2), L, popped, d, list(reversed([1, 2])), \
        list(enumerate('ab', 1)), list(zip('ab', [1, 2], (3, 4))), dict(zip('ab', range(2))), tuple(sorted({'b': 1, 'a': 2}.items())), \
        any([]), all([]), min([2, 1]), divmod(7, 2), round(2.567, 1), abs(-3), len({1, 1, 2})


def f_generators():
    def gen(n):
        for i in range(n):
            yield i * i
        yield from 'xy'
    g = list(gen(3))
    first = next(iter([7, 8]))
    nx = next((x for x in [1, 2, 3] if x > 1), None)
    none = next((x for x in [] if x), 'dflt')
    return g, first, nx, none, sum(gen(4)[:0] if False else [1]), list(range(5, 0, -2))


def f_globals():
    global COUNTER
    COUNTER += 1
    COUNTER += 1
    return COUNTER, TABLE['b'], FLAG


def f_with_model(ctx):
    log = []
    with ctx as c:
        log.append(c)
    return log


def f_exceptions_as_values():
    out = []
    for bad in ('12', 'x', None):
        try:
            out.append(int(bad))
        except ValueError:
            out.append('ValueError')
        except TypeError:
            out.append('TypeError')
    try:
        raise KeyError('k')
    except Exception as e:
        out.append(type(e).__name__)
    try:
        assert 1 == 2, 'no'
    except AssertionError:
        out.append('assert')
    return out


def f_numbers():
    return 7 / 2, 7 // 2, -7 // 2, 7 % 3, -7 % 3, 2 ** 10, 2 ** -1, 1e3, 0.1 + 0.2, int('12') + float('1.5'), 10 >> 1, 3 << 2, 6 & 3, 6 | 3, 6 ^ 3, ~5, \
        True & False, 1 if 0.0 else 2, int(3.9), int(-3.9), round(2.5), round(3.5), 9007199254740993 * 1.0, -0.0 == 0.0


class Bag(object):
    """a container class of the kind the repository has (own __iter__, __len__, __contains__, __str__, __eq__)"""
    def __init__(self, items=None):
        self.ids = list(items or [])

    def __iter__(self):
        return self.ids.__iter__()

    def __len__(self):
        return self.ids.__len__()

    def __contains__(self, k):
        return k in self.ids

    def __str__(self):
        return 'Bag(%s)' % ', '.join(str(i) for i in self.ids)

    def __repr__(self):
        return 'Bag' + repr(self.ids)

    def __eq__(self, other):
        if isinstance(other, Bag):
            return self.ids == other.ids
        elif type(other) is list:
            return self.ids == other
        return False


class Child(Base):
    def __init__(self, v):
        super().__init__(v, scale=7)

    def value(self):
        return super().value() - 1


def f_dunder_dispatch():
    b = Bag([3, 1, 2])
    e = Bag()
    return [x for x in b], len(b), 1 in b, 9 in b, str(b), '%s|%r' % (b, b), f'{b}', b == Bag([3, 1, 2]), b == [3, 1, 2], b != Bag([1]), \
        bool(b), bool(e), ('yes' if e else 'no'), sorted(b), list(b), sum(b), max(b), [i for i, x in enumerate(b)], not e


def f_super_and_shadowing():
    c = Child(2)
    c.kind = 'instance-level'
    return c.value(), c.describe(), Child.kind, c.kind, Base(1).kind


def f_star_calls_and_slices():
    def f(a, b, c=0, *rest, **kw):
        return (a, b, c, rest, sorted(kw.items()))
    args = [1, 2, 3, 4]
    kw = {'z': 1}
    L = list(range(8))
    L[1:3] = ['x']
    L[-1:] = []
    M = list('abcdef')
    del M[1:3]
    rows = [(1, 'a'), (2, 'b')]
    return f(*args, **kw), f(*args[:2]), f(0, *args[:1], c=5, **{'k': 2}), L, M, list(zip(*rows)), [*args, *'xy'], {**kw, 'y': 2}, (*args[:1], 9)


def f_closures_late_binding():
    fs = [lambda: i for i in range(3)]
    gs = [lambda i=i: i for i in range(3)]
    acc = []
    def outer():
        total = [0]
        def add(n):
            total[0] += n
            acc.append(total[0])
            return total[0]
        return add
    add = outer()
    add(2)
    add(3)
    return [f() for f in fs], [g() for g in gs], acc


def f_finally_return_and_nested_loops():
    def g():
        try:
            return 'try'
        finally:
            pass
    out = []
    for i in range(3):
        for j in range(3):
            if j == 1:
                continue
            if j == 2:
                break
            out.append((i, j))
        else:
            out.append('inner-else')
    k = 0
    while True:
        k += 1
        if k > 2:
            break
    return g(), out, k


def f_string_methods():
    s = '  Hello, World  '
    return s.strip().lower(), s.lstrip(), s.rstrip(), s.split(), s.strip().split(', '), 'a-b-c'.rsplit('-', 1), 'abc'.find('c'), 'abc'.find('z'), \
        'abc'.index('b'), 'aXbXc'.partition('X'), 'aXbXc'.rpartition('X'), 'abc'.isalpha(), '12'.isdigit(), 'a1'.isalnum(), ' '.isspace(), \
        'abc'.center(7, '*'), 'abc'.ljust(5) + '|', '7'.zfill(3), 'Hello'.count('l'), 'x'.join(['a']), ''.join(reversed('abc')), 'abc'[::-1], \
        'line1\nline2\r\nline3'.splitlines(), 'line1\nline2\n'.splitlines(True), 'é'.encode('utf-8').hex(), '%5s|%-5s|%05d|%x|%o|%e' % ('a', 'b', 42, 255, 8, 1234.5), \
        '{:>5}|{:<5}|{:^5}|{:05.1f}|{:,}'.format('a', 'b', 'c', 3.14159, 1234567), repr('it\'s'), str(None), str(1.0), str(True), 'a' < 'b', 'a' * 0


import operator

_MISSING = object()
SHARED_LIST = []
SIGN_TABLE = (
    ('neg', lambda lo, hi: hi < 0),
    ('zero', lambda lo, hi: lo == hi == 0),
    ('pos', lambda lo, hi: lo > 0),
)


def f_sentinels_and_operator():
    cache = {}

    def lookup(k, compute):
        got = cache.get(k, _MISSING)
        if got is _MISSING:
            got = cache[k] = compute(k)
        return got
    calls = []

    def compute(k):
        calls.append(k)
        return None if k == 'n' else k * 2
    a = [lookup('a', compute), lookup('a', compute), lookup('n', compute), lookup('n', compute)]
    SHARED_LIST.append(len(SHARED_LIST))
    d = {}
    d.setdefault('x', {})['y'] = 1
    return a, calls, _MISSING is _MISSING, list(SHARED_LIST), d, operator.ge(2, 1), operator.lt(2, 1), \
        [op(3, 3) for op in (operator.ge, operator.gt, operator.le, operator.lt, operator.eq, operator.ne)], \
        [name for name, test in SIGN_TABLE if test(-2, -1)], [name for name, test in SIGN_TABLE if test(0, 0)]


# ---- wrappers and table-driven arms for the specialiser (sa/specialise.py): g_* are specialised, then both versions are run ----
class Limits:
    def __init__(self, lo, hi):
        self.lo, self.hi = lo, hi
        self.seen = []

    def get_lo(self, col):
        self.seen.append(('lo', col))
        return self.lo

    def get_hi(self, col):
        self.seen.append(('hi', col))
        return self.hi

    def flag_lo(self, col, v):
        self.seen.append(('flag_lo', col, v))

    def flag_hi(self, col, v):
        self.seen.append(('flag_hi', col, v))

    def g_check_lo(self, col, bound, mode='closed', detect=False):
        return self._check(col, bound, mode, detect, self.get_lo, (operator.ge, operator.gt), self.flag_lo)

    def g_check_hi(self, col, bound, mode='closed', detect=False):
        return self._check(col, bound, mode, detect, self.get_hi, (operator.le, operator.lt), self.flag_hi)

    def _check(self, col, bound, mode, detect, getter, comparisons, flagger):
        if bound is None:
            return True
        actual = getter(col)
        closed, strict = comparisons
        if mode == 'closed':
            result = closed(actual, bound)
        else:
            result = strict(actual, bound)
        if detect and not result:
            flagger(col, bound)
        return result

    def g_check_len(self, col, bound, detect=False):
        return self._check_kind(col, bound, detect, 'lo')

    def _check_kind(self, col, bound, detect, kind, slack=0):
        is_lo = kind == 'lo'
        if is_lo:
            actual = self.get_lo(col)
        else:
            actual = self.get_hi(col)
        result = actual >= bound - slack if is_lo else actual <= bound + slack
        if detect and not result:
            (self.flag_lo if is_lo else self.flag_hi)(col, bound)
        return result

    def g_sign(self, col, sign):
        lo, hi = self.get_lo(col), self.get_hi(col)
        for name, test in SIGN_TABLE:
            if sign == name:
                result = test(lo, hi)
                break
        else:
            result = None
        return result

    def g_sign_local_table(self, col, sign):
        lo, hi = self.get_lo(col), self.get_hi(col)
        tests = (('neg', lambda: hi < 0), ('pos', lambda: lo > 0))
        for name, test in tests:
            if sign == name:
                return test()
        return 'unknown'

    def g_lambda_args(self, col, bound):
        return self._with(lambda: self.get_lo(col), operator.ge, lambda v: self.flag_lo(col, v), bound)

    def _with(self, get, within, flag, bound):
        actual = get()
        result = within(actual, bound)
        if not result:
            flag(bound)
        return result

    def g_rebound_param(self, col, extra=None):
        return self._rebinding(col, extra, 'x')

    def _rebinding(self, col, extra, tag):
        extra = extra or []
        tag = tag + '!'
        return [col, tag] + list(extra)


SPECIALISE_CASES = [
    ('g_check_lo', [('c', 1), ('c', 2), ('c', 2, 'open'), ('c', 3, 'closed', True), ('c', None)]),
    ('g_check_hi', [('c', 9), ('c', 5), ('c', 5, 'open'), ('c', 3, 'open', True)]),
    ('g_check_len', [('c', 2), ('c', 3, True)]),
    ('g_sign', [('c', 'neg'), ('c', 'zero'), ('c', 'pos'), ('c', 'other')]),
    ('g_sign_local_table', [('c', 'neg'), ('c', 'pos'), ('c', 'other')]),
    ('g_lambda_args', [('c', 1), ('c', 7)]),
    ('g_rebound_param', [('c',), ('c', ['e'])]),
]
SPECIALISE_CASES_2 = [
    ('g_multi_return_assign', [(None,), (-3,), (-3, True), (0,), (7,), (700,)]),
    ('g_multi_return_stmt', [(None,), (-1,), (5,)]),
    ('g_call_in_condition', [(None,), (5,), (500,), (0.5,)]),
    ('g_call_in_expression', [(-2,), (0,), (3,)]),
]
SPECIALISE_CASES_3 = [
    ('g_try_helper_in_condition', [(['a', 'bad', 'a', 'a'],), ([],)]),
    ('g_table_of_names', [('c',)]),
    ('g_get_dispatch', [('closed', False, 2, 2), ('open', False, 2, 2), ('open', True, 2, 2), ('fuzzy', False, 2, 2.5), (None, False, 2, 9)]),
    ('g_dispatch_dict', [('a', [1, 2]), ('b', [1, 2]), ('c', [1, 2])]),
    ('g_rows', [((True, False), ('x', 'y')), ((True, True), ('', 'y'))]),
]
SPECIALISE_CASES_4 = [
    ('g_count_discarded', [((), ('w1', 'w2')), (('e',), ())]),
]


class Sorter:
    def __init__(self):
        self.log = []

    def _classify(self, v, strict):
        if v is None:
            return 'none'
        self.log.append(('seen', v))
        if v < 0:
            if strict:
                return 'neg!'
            return 'neg'
        elif v == 0:
            return 'zero'
        self.log.append(('positive', v))
        if v > 100:
            return 'big'
        return 'pos'

    def _note(self, v):
        if v is None:
            return
        if v < 0:
            self.log.append(('note-neg', v))
            return
        self.log.append(('note', v))

    def _is_big(self, v):
        self.log.append(('is_big?', v))
        return v is not None and v > 100

    def g_multi_return_assign(self, v, strict=False):
        kind = self._classify(v, strict)
        self.log.append(('kind', kind))
        return kind

    def g_multi_return_stmt(self, v):
        self._note(v)
        self.log.append('done')
        return len(self.log)

    def g_call_in_condition(self, v):
        if self._is_big(v):
            return 'BIG'
        elif v is not None and self._is_big(v * 1000):
            return 'biggish'
        return 'small'

    def g_call_in_expression(self, v):
        label = 'k=' + self._classify(v, False) + '.'
        return [label, self._classify(v, True)]


class Copier:
    def __init__(self):
        self.log = []

    def _try_copy(self, src, dst):
        try:
            if src == 'bad':
                raise IOError('cannot read')
            self.log.append(('copied', src, dst))
            return True
        except IOError:
            self.log.append(('failed', src))
            return False

    def _place(self, name, taken):
        stem = 'ref/' + name
        if stem not in taken:
            return stem, None
        k = 1
        while stem + str(k) in taken:
            k += 1
        return stem + str(k), name + str(k)

    def g_try_helper_in_condition(self, names):
        failures = False
        taken = set()
        mapped = {}
        for n in names:
            dst, alias = self._place(n, taken)
            if alias is not None:
                mapped[n] = alias
            taken.add(dst)
            if not self._try_copy(n, dst):
                failures = True
        return failures, sorted(taken), mapped

    KINDS = {'lo': 'get_lo', 'hi': 'get_hi'}
    PICK = {'closed': operator.ge, 'open': operator.gt}

    def get_lo(self, c):
        self.log.append(('lo', c))
        return 2

    def get_hi(self, c):
        self.log.append(('hi', c))
        return 5

    def _stat(self, key, c):
        fn = getattr(self, self.KINDS[key])
        return fn(c)

    def g_table_of_names(self, c):
        return self._stat('lo', c) + self._stat('hi', c)

    def _mode(self, precision, is_date):
        if precision == 'closed' or is_date:
            return 'closed'
        if precision == 'open':
            return 'open'
        return 'fuzzy'

    def g_get_dispatch(self, precision, is_date, a, b):
        exact = self.PICK.get(self._mode(precision, is_date))
        result = exact(a, b) if exact else abs(a - b) < 1
        self.log.append(result)
        return result

    def _first(self, xs):
        return xs[0]

    def _second(self, xs):
        return xs[1]

    def g_dispatch_dict(self, which, xs):
        pickers = {'a': self._first, 'b': self._second, 'c': self._first}
        if which not in pickers:
            raise ValueError('no such picker')
        pick = pickers[which]
        got = pick(xs)
        return got

    def _emit(self, name, flag, text):
        if flag:
            self.log.append((name, text or '(empty)'))

    def g_rows(self, flags, texts):
        rows = (('out', flags[0], texts[0]), ('err', flags[1], texts[1]))
        for (name, flag, text) in rows:
            self._emit(name, flag, text)
        return len(self.log)


from itertools import groupby, chain
from operator import itemgetter


def f_pure_imports():
    runs = tuple((c, sum(1 for _ in run)) for (c, run) in groupby('aaabccdd'))
    pairs = sorted(((name, pos) for pos, name in enumerate('zxy')), key=itemgetter(0))
    return runs, pairs, list(chain([1], (2, 3))), itemgetter(1)(('a', 'b'))


class _Celsius:
    def __init__(self, readings):
        self.readings = readings

    @property
    def latest(self):
        return self.readings[-1] if self.readings else None


def _extend_in_place(target, more):
    target += more
    return len(target)


def f_augmented_assignment_and_properties():
    shared = [1, 2]
    alias = shared
    n = _extend_in_place(shared, [3])            # the caller's list grows: += on a list is in place
    alias += (4,)
    t = (1, 2)
    u = t
    t += (3,)                                    # a tuple is rebound, the other name keeps the old value
    s = {1}
    s2 = s
    s |= {2}
    s -= {1}
    d = {'a': 1}
    d2 = d
    d |= {'b': 2}
    text = 'ab'
    text += 'c'
    k = [0] * 2
    k2 = k
    k *= 2
    c = _Celsius([3, 4])
    c.readings += [5]
    return shared, alias is shared, n, t, u, sorted(s2), s is s2, d2, text, k2, c.latest, _Celsius([]).latest


class Reporter:
    def __init__(self):
        self.log = []

    def _report(self, label, msgs):
        n = 0
        for m in msgs:
            self.log.append('%s: %s' % (label, m))
            n += 1
        return n

    def g_count_discarded(self, errors, warnings):
        n_errors = 0
        n_errors += self._report('E', errors)
        self._report('W', warnings)
        return n_errors == 0
