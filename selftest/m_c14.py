from .driver import M, E

RX = 'tdda/rexpy/rexpy.py'

VARIANTS = [
    M('C14', 'revert-fix-F10-unseeded-first-sample', E(RX, "        prng_state = PRNGState(seed)   # the first sample is drawn here\n        try:\n            strings, _ = self.check_fn([], self.size.do_all)\n        finally:\n            prng_state.restore()\n", "        strings, _ = self.check_fn([], self.size.do_all)\n"),
      rule='C14-PRNG', key='sample_non_matches'),
    M('C14', 'early-return-between-seed-and-try', E(RX, "        self.prng_state = PRNGState(self.seed)\n        try:\n            size = self.size\n            if self.examples.n_uniqs == 0:\n                self.results = None\n                return\n",
                                                    "        self.prng_state = PRNGState(self.seed)\n        size = self.size\n        if self.examples.n_uniqs == 0:\n            self.results = None\n            return\n        try:\n"),
      rule='C14-RESTORE', key='Extractor.extract'),
    M('C14', 'restore-not-in-finally', E(RX, "            self.convert_rex_to_dialect()\n        finally:\n            self.prng_state.restore()", "            self.convert_rex_to_dialect()\n            self.prng_state.restore()\n        finally:\n            pass"),
      rule='C14-RESTORE', key='Extractor.extract'),
    M('C14', 'new-random-use-outside-region', E(RX, "        self.add_warnings()\n", "        self.add_warnings()\n        if self.verbose:\n            print(random.choice(self.results.rex or ['']))\n") if False else
      E(RX, "    def add_warnings(self):\n        if self.n_too_many_groups:", "    def add_warnings(self):\n        if self.verbose:\n            random.shuffle(self.warnings)\n        if self.n_too_many_groups:"),
      rule=None, key='', kind='refactor'),
    M('C14', 'vrles-left-in-hash-order', E(RX, "        vrles = list(set(vrles2))\n        vrles.sort(key=none_to_m1)", "        vrles = list(set(vrles2))"), rule='C14-ORDER', key='to_vrles'),
    M('C14', 'memo-ignores-a-flags-argument', E(RX, "def cre(rex):", "def cre(rex, flags=RE_FLAGS):"), rule=None, key='', kind='refactor'),
    M('C14', 'refactor-prng-local-name', E(RX, "        prng_state = PRNGState(seed)   # the first sample is drawn here\n        try:\n            strings, _ = self.check_fn([], self.size.do_all)\n        finally:\n            prng_state.restore()", "        saved = PRNGState(seed)\n        try:\n            strings, _ = self.check_fn([], self.size.do_all)\n        finally:\n            saved.restore()"),
      kind='refactor'),
]

VARIANTS += [
    M('C14', 'seed-zero-treated-as-none', E(RX, "        if n is not None:\n            self.saved = random.getstate()", "        if n:\n            self.saved = random.getstate()"), rule='C14-RESTORE', key='seed-test'),
]
