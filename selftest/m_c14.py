from .driver import M, E

RX = 'tdda/rexpy/rexpy.py'

VARIANTS = [
    M('C14', 'revert-fix-F10-unseeded-first-sample', E(RX, "        prng_state = PRNGState(seed)   # the first sample is drawn here\n        try:\n            strings, _ = self.check_fn([], self.size.do_all)\n        finally:\n            prng_state.restore()\n", "        strings, _ = self.check_fn([], self.size.do_all)\n"),
      rule='C14-PRNG', key='sample_non_matches'),
    M('C14', 'early-return-between-seed-and-try', E(RX, "        self.prng_state = PRNGState(self.seed)\n        try:\n            size = self.size\n            if self.examples.n_uniqs == 0:\n                self.results = None\n                return\n",
                                                    "        self.prng_state = PRNGState(self.seed)\n        size = self.size\n        if self.examples.n_uniqs == 0:\n            self.results = None\n            return\n        try:\n"),
      rule='C14-RESTORE', key='Extractor.extract'),
    M('C14', 'restore-not-in-finally', E(RX, "            self.convert_rex_to_dialect()\n        finally:\n            self.prng_state.restore()", "            self.convert_rex_to_dialect()\n            self.prng_state.restore()\n        finally:\n            pass"),
      rule='C14-RESTORE', key='Extractor.extract'),
    M('C14', 'new-random-use-outside-region', E(RX, "        self.add_warnings()\n", "        self.add_warnings()\n        if self.verbose:\n            print(random.choice(self.results.rex or ['']))\n") if False else
      E(RX, "    def add_warnings(self):\n        if self.n_too_many_groups:", "    def add_warnings(self):\n        if self.verbose:\n            random.shuffle(self.warnings)\n        if self.n_too_many_groups:"),
      rule=None, key='', kind='refactor'),
    M('C14', 'vrles-left-in-hash-order', E(RX, "        vrles = list(set(vrles2))\n        vrles.sort(key=none_to_m1)", "        vrles = list(set(vrles2))"), rule='C14-ORDER', key='to_vrles'),
    M('C14', 'memo-ignores-a-flags-argument', E(RX, "def cre(rex):", "def cre(rex, flags=RE_FLAGS):"), rule=None, key='', kind='refactor'),
    M('C14', 'refactor-prng-local-name', E(RX, "        prng_state = PRNGState(seed)   # the first sample is drawn here\n        try:\n            strings, _ = self.check_fn([], self.size.do_all)\n        finally:\n            prng_state.restore()", "        saved = PRNGState(seed)\n        try:\n            strings, _ = self.check_fn([], self.size.do_all)\n        finally:\n            saved.restore()"),
      kind='refactor'),
]

VARIANTS += [
    M('C14', 'seed-zero-treated-as-none', E(RX, "        if n is not None:\n            self.saved = random.getstate()", "        if n:\n            self.saved = random.getstate()"), rule='C14-RESTORE', key='seed-test'),
]

VARIANTS += [
    M('C14', 'header-deleted-from-callers-list', E(RX, "    if skip_header:\n        strings = strings[1:]\n", "    if skip_header and strings:\n        del strings[0]\n"),
      rule='C14-ARGMUT', key='rexpy_streams'),
    M('C14', 'examples-sorted-in-place', E(RX, "    r = Extractor(examples, tag=tag, extra_letters=extra_letters,", "    if isinstance(examples, list):\n        examples.sort()\n    r = Extractor(examples, tag=tag, extra_letters=extra_letters,"),
      rule='C14-ARGMUT', key='extract'),
    M('C14', 'categorical-levels-as-examples', E(RX, "        strings.extend(list(c.dropna().unique()))", "        strings.extend(list(c.cat.categories if c.dtype.name == 'category' else c.dropna().unique()))"),
      rule='C14-OBSERVED', key='pdextract'),
    M('C14', 'refactor-header-skipped-by-copy', E(RX, "    if skip_header:\n        strings = strings[1:]\n", "    if skip_header:\n        strings = list(strings)\n        del strings[0]\n"), kind='refactor'),
    M('C14', 'refactor-observed-categories', E(RX, "        strings.extend(list(c.dropna().unique()))", "        strings.extend(list(c.cat.remove_unused_categories().cat.categories if c.dtype.name == 'category' else c.dropna().unique()))"), kind='refactor'),
]

VARIANTS += [
    M('C14', 'category-table-memo-forgets-escaping-option', [E(RX, "class Fragment(namedtuple('Fragment', 're group')):", "category_sets = {}\ndef categories_for(extra_letters=None, full_escape=False, dialect=None):\n    key = (extra_letters or '', dialect)\n    cats = category_sets.get(key)\n    if cats is None:\n        cats = Categories(extra_letters, full_escape=full_escape,\n                          dialect=dialect)\n        category_sets[key] = cats\n    return cats\n\n\nclass Fragment(namedtuple('Fragment', 're group')):")],
      rule='C14-MEMO', key='categories_for'),
    M('C14', 'refactor-category-table-memo-complete-key', [E(RX, "class Fragment(namedtuple('Fragment', 're group')):", "category_sets = {}\ndef categories_for(extra_letters=None, full_escape=False, dialect=None):\n    key = (extra_letters or '', bool(full_escape), dialect)\n    cats = category_sets.get(key)\n    if cats is None:\n        cats = Categories(extra_letters, full_escape=full_escape,\n                          dialect=dialect)\n        category_sets[key] = cats\n    return cats\n\n\nclass Fragment(namedtuple('Fragment', 're group')):")],
      kind='refactor'),
]

VARIANTS += [
    M('C14', 'seed-dropped-when-sampling-flag-is-off', E(RX, "        self.seed = seed\n", "        self.seed = seed if self.size.use_sampling else None\n"), rule='C14-SEEDFWD', key='self.seed'),
    M('C14', 'first-sample-seeded-with-a-constant', E(RX, "        prng_state = PRNGState(seed)   # the first sample is drawn here", "        prng_state = PRNGState(0)   # the first sample is drawn here"), rule='C14-SEEDFWD', key='PRNGState'),
    M('C14', 'refactor-seed-stored-before-first-sample', [E(RX, "        self.seed = seed\n", ""), E(RX, "        prng_state = PRNGState(seed)   # the first sample is drawn here", "        self.seed = seed\n        prng_state = PRNGState(self.seed)   # the first sample is drawn here")], kind='refactor'),
    M('C14', 'pdextract-drops-the-seed', E(RX, "        return extract(strings, seed=seed)", "        return extract(strings)"), rule='C14-SEEDFWD', key='pdextract'),
]

VARIANTS += [
    M('C14', 'size-parameters-fall-back-when-falsy', E(RX, "                    self.__dict__[k] = v\n", "                    self.__dict__[k] = v or self.__dict__[k]\n"), rule='C14-SIZE', key='do_all_exceptions=0'),
]
