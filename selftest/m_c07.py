from .driver import M, E

BC = 'tdda/constraints/baseconstraints.py'
PC = 'tdda/constraints/pd/constraints.py'
DR = 'tdda/constraints/db/drivers.py'

VARIANTS = [
    M('C07', 'revert-fix-empty-rex', E(BC, "            rexes = self.find_rexes(fieldname, values=uniqs, seed=self.seed)\n            if rexes:  # no values, no expressions: nothing to constrain\n                rex_constraint = RexConstraint(rexes)",
                                       "            rex_constraint = RexConstraint(self.find_rexes(fieldname,\n                                                           values=uniqs,\n                                                           seed=self.seed))"),
      rule='C07-ABSENT', key='RexConstraint'),
    M('C07', 'nulls-threshold-off-by-one', E(BC, "            if nNull < 2:", "            if nNull <= 2:"), rule='C07-THRESH', key='max_nulls'),
    M('C07', 'categories-threshold-strict', E(BC, "                    if n_unique <= MAX_CATEGORIES:", "                    if n_unique < MAX_CATEGORIES:"), rule='C07-THRESH', key='allowed_values'),
    M('C07', 'max-categories-changed', E(BC, "MAX_CATEGORIES = 20", "MAX_CATEGORIES = 25"), rule='C07-THRESH', key='MAX_CATEGORIES'),
    M('C07', 'no-duplicates-for-single-value', E(BC, "            if n_unique == nNonNull and n_unique > 1 and type_ != 'real':", "            if n_unique == nNonNull and n_unique > 0 and type_ != 'real':"),
      rule='C07-THRESH', key='no_duplicates'),
    M('C07', 'sign-too-weak', E(BC, "                            sign = 'negative' if M < 0 else 'non-positive'", "                            sign = 'non-positive'"),
      rule='C07-STRONG', key='sign:(-1, -1)'),
    M('C07', 'zero-class-dropped', E(BC, "                        if m == M == 0:\n                            sign_constraint = SignConstraint('zero')\n                        elif m >= 0:", "                        if m >= 0:"),
      rule=None, key='sign'),
    M('C07', 'sql-max-uses-min', E(DR, "            sql = 'SELECT MAX(%s) FROM %s' % (self.quoted(colname), tablename)", "            sql = 'SELECT MIN(%s) FROM %s' % (self.quoted(colname), tablename)"),
      rule='C07-AGG', key='get_database_max'),
    M('C07', 'pandas-max-length-uses-min', E(PC, "            return self.df[colname].str.len().max()", "            return self.df[colname].str.len().min()"),
      rule='C07-AGG', key='calc_max_length'),
    M('C07', 'distinct-values-limited', E(DR, "        sql = 'SELECT DISTINCT %s FROM %s %s %s' % (colname, tablename,\n                                                    whereclause, orderby)", "        sql = 'SELECT DISTINCT %s FROM %s %s %s LIMIT 10000' % (colname, tablename,\n                                                    whereclause, orderby)"),
      rule='C07-AGG', key='get_database_unique_values'),
    M('C07', 'min-emitted-without-data-check', E(BC, "                    if not self.is_null(m):\n                        min_constraint = MinConstraint(m)", "                    min_constraint = MinConstraint(m)"),
      rule='C07-ABSENT', key='MinConstraint'),
    M('C07', 'nulls-emitted-for-empty-frame', E(BC, "        if length > 0:  # Things are not very interesting when there is no data\n            nNull = self.calc_null_count(fieldname)\n            nNonNull = self.calc_non_null_count(fieldname)\n            assert nNull + nNonNull == length\n            if nNull < 2:\n                max_nulls_constraint = MaxNullsConstraint(nNull)\n",
                                                "        nNull = self.calc_null_count(fieldname)\n        if nNull < 2:\n            max_nulls_constraint = MaxNullsConstraint(nNull)\n        if length > 0:  # Things are not very interesting when there is no data\n            nNonNull = self.calc_non_null_count(fieldname)\n            assert nNull + nNonNull == length\n"),
      rule='C07-ABSENT', key='MaxNullsConstraint'),
    M('C07', 'refactor-threshold-rewritten', E(BC, "            if nNull < 2:", "            if nNull <= 1:"), kind='refactor'),
    M('C07', 'refactor-sign-chain-reordered', E(BC, "                        elif m >= 0:\n                            sign = 'positive' if m > 0 else 'non-negative'\n                            sign_constraint = SignConstraint(sign)\n                        elif M <= 0:\n                            sign = 'negative' if M < 0 else 'non-positive'\n                            sign_constraint = SignConstraint(sign)",
                                                "                        elif M <= 0:\n                            sign = 'negative' if M < 0 else 'non-positive'\n                            sign_constraint = SignConstraint(sign)\n                        elif m >= 0:\n                            sign = 'positive' if m > 0 else 'non-negative'\n                            sign_constraint = SignConstraint(sign)"),
      kind='refactor'),
]

VARIANTS += [
    M('C07', 'lengths-from-backend-length', E(BC, "                        m = min(L)\n                        M = max(L)\n                        min_length_constraint = MinLengthConstraint(m)", "                        m = int(self.calc_min_length(fieldname))\n                        M = max(L)\n                        min_length_constraint = MinLengthConstraint(m)"),
      rule='C07-LENCHARS', key='MinLengthConstraint'),
    M('C07', 'class-level-type-memo', E(DR, "    def get_database_column_type(self, tablename, colname):\n        typeMap = {", "    column_types = {}\n\n    def get_database_column_type(self, tablename, colname):\n        if (tablename, colname) in self.column_types:\n            return self.column_types[(tablename, colname)]\n        self.column_types[(tablename, colname)] = None\n        typeMap = {"),
      rule='C07-NOSHARED', key='column_types'),
]

VARIANTS += [
    M('C07', 'nunique-from-declared-categories', E(PC, "        return int(self.df[colname].nunique())", "        col = self.df[colname]\n        if col.dtype.name == 'category':\n            return len(col.cat.categories)\n        return int(col.nunique())"),
      rule='C07-OBSERVED', key='calc_nunique'),
    M('C07', 'unique-values-from-value_counts', E(PC, "        values = self.df[colname].unique()\n        nullvalues", "        values = self.df[colname].value_counts(dropna=False, sort=False).index\n        nullvalues"),
      rule='C07-OBSERVED', key='calc_unique_values'),
    M('C07', 'refactor-value_counts-filtered', E(PC, "        values = self.df[colname].unique()\n        nullvalues", "        vc = self.df[colname].value_counts(dropna=False, sort=False)\n        values = vc[vc > 0].index\n        nullvalues"), kind='refactor'),
]

VARIANTS += [
    M('C07', 'integer-test-anchored-misses-unsigned', E(PC, "    if type(x) in (int, long_type) or 'int' in dts:", "    if type(x) in (int, long_type) or re.match(r'int\\d+', dts):"),
      rule='C07-DTYPES', key='dtype=uint8'),
    M('C07', 'float-test-misses-nullable', E(PC, "    if type(x) == float or 'float' in dts:", "    if type(x) == float or dts in ('float32', 'float64'):"),
      rule='C07-DTYPES', key='dtype=float16'),
    M('C07', 'bool-tested-after-int', [E(PC, "    if type(x) == bool or 'bool' in dts:\n        return 'bool'\n", ""),
                                       E(PC, "    if type(x) == float or 'float' in dts:\n        return 'real'\n", "    if type(x) == float or 'float' in dts:\n        return 'real'\n    if type(x) == bool or 'bool' in dts:\n        return 'bool'\n")],
      kind='refactor'),
    M('C07', 'refactor-int-test-by-regex-search', E(PC, "    if type(x) in (int, long_type) or 'int' in dts:", "    if type(x) in (int, long_type) or re.search(r'int', dts):"), kind='refactor'),
]

VARIANTS += [
    M('C07', 'minimum-over-finite-values-only', E(PC, "        else:\n            m = self.df[colname].min()\n", "        else:\n            col = self.df[colname]\n            m = col[np.isfinite(col)].min() if str(col.dtype).startswith('float') else col.min()\n"),
      rule='C07-OBSERVED', key='calc_min'),
    M('C07', 'distinct-values-filtered-by-truth', E(DR, "        result = self.execute_all(sql)\n        return [x[0] for x in result]", "        result = self.execute_all(sql)\n        return [x[0] for x in result if x[0]]"),
      rule='C07-DISTINCT', key='get_database_unique_values'),
]

VARIANTS += [
    M('C07', 'null-count-assumed-zero-on-sqlite', E(DR, "        sql = ('SELECT COUNT(*) FROM %s WHERE %s IS NULL'\n               % (tablename, self.quoted(colname)))\n        return self.execute_scalar(sql)",
                                                     "        sql = ('SELECT COUNT(*) FROM %s WHERE %s IS NULL'\n               % (tablename, self.quoted(colname)))\n        if self.dbtype == 'sqlite' and colname.lower() == 'id':\n            return 0\n        return self.execute_scalar(sql)"),
      rule='C07-COUNTED', key='get_database_nnull'),
    M('C07', 'date-bound-written-to-the-second', E('tdda/constraints/base.py', "str(self.value)", "self.value.isoformat(sep=' ', timespec='seconds') if isinstance(self.value, datetime.datetime) else str(self.value)"),
      rule='C07-WRITTEN', key='to_dict_value'),
]
