"""Reverse patches of the IEF `fix:` commits (DESIGN section 5): each must be re-detected."""
from .driver import M, E

CP = 'tdda/referencetest/checkpandas.py'
RT = 'tdda/referencetest/referencetest.py'
PC = 'tdda/constraints/pd/constraints.py'
DR = 'tdda/constraints/db/drivers.py'
GT = 'tdda/referencetest/gentest.py'
DX = 'tdda/referencetest/diffrex.py'
PD = 'tdda/referencetest/pddates.py'
CW = 'tdda/serial/csvw.py'

REV_INFO = E(CP, "self.info(diffs, 'Cannot sort on missing columns')", "self.info('Cannot sort on missing columns')")
REV_STRIP = E(RT, "actual_paths, expected_paths, lstrip=lstrip, rstrip=rstrip\n", "actual_paths, expected_paths, lstrip=strip, rstrip=rstrip\n")
REV_FMT = E(PC, "        print(default_csv_writer(df, None, index=index))\n        return\n", "        print(default_csv_writer(df, None, index=index))\n")
REV_TABLENAME = E(DR, "raise Exception('Bad table format %s' % name)", "raise Exception('Bad table format %s' % tablename)")
REV_TM = E(GT, "            tm = tM = None\n", "            m = M = None\n")
REV_PREV = E(DX, "print('DID NOT EXPECT THIS', line_source)", "print('DID NOT EXPECT THIS', prev_source, line_source)")
REV_PAIRS = E(GT, "            if pairs is None:  # later run's file not readable\n                continue\n", "")
REV_SIMPLE = E(PD, "return infer_date_format(col, n * 10)", "return simple_infer_datetime_format(col, n * 10)", count=2)
REV_CONTEXT = E(CW, "                          f'{len(value)} found')\n                return\n", "                          f'{len(value)} found')\n")

VARIANTS = [
    M('C05', 'revert-fix-F17-info-arity', REV_INFO, rule='C05-IEF', key='ARITY:self.info'),
    M('C10', 'revert-fix-F04-strip', REV_STRIP, rule='C10-IEF', key='UNDEF:strip'),
    M('C17', 'revert-fix-F02-fmt', REV_FMT, rule='C17-IEF', key='UNBOUND:fmt'),
    M('C08', 'revert-fix-F27-tablename', REV_TABLENAME, rule='C08-IEF', key='UNDEF:tablename'),
    M('C11', 'revert-fix-F08-tm', REV_TM, rule='C11-IEF', key='UNBOUND:tm'),
    M('C11', 'revert-fix-prev_source', REV_PREV, rule='C11-IEF', key='UNDEF:prev_source'),
    M('C11', 'revert-fix-F31-pairs-none', REV_PAIRS, rule='C11-IEF', key='NONEITER'),
    M('C17', 'revert-fix-F20-simple_infer', REV_SIMPLE, rule='C17-IEF', key='UNDEF:simple_infer_datetime_format'),
    M('C17', 'revert-fix-get_context', REV_CONTEXT, rule='C17-IEF', key='UNBOUND:context'),
]
