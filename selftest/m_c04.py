from .driver import M, E

CF = 'tdda/referencetest/checkfiles.py'
RT = 'tdda/referencetest/referencetest.py'

VARIANTS = [
    M('C04', 'expected-side-not-preprocessed', E(CF, "            expected = preprocess(expected)\n            actual = preprocess(actual)", "            actual = preprocess(actual)"),
      rule=None, key=''),
    M('C04', 'trailing-empty-strip-one-sided', E(CF, "        if expected and len(expected[-1]) == 0:\n            expected = expected[:-1]", "        if expected and len(expected[-1]) == 0 and actual:\n            expected = expected[:-1]"),
      rule='C04-SYM', key='check_strings'),
    M('C04', 'removal-filter-wrong-set', E(CF, "                if i not in expected_removals\n            ]", "                if i not in actual_removals\n            ]"),
      rule='C04-SYM', key='check_strings'),
    M('C04', 'reference-split-differently', E(CF, "            with open(expected_path, encoding=enc) as f:\n                content = f.read()\n                expected_ends_with_newline = content.endswith('\\n')\n                expected = content.splitlines()\n        except IOError:\n            self.info(msgs, 'Reference file %s not found.' % expected_path)\n            self.add_failures(msgs, None, None, expected_path, actual=actual)",
                                              "            with open(expected_path, encoding=enc) as f:\n                content = f.read()\n                expected_ends_with_newline = content.endswith('\\n')\n                expected = content.split('\\n')\n        except IOError:\n            self.info(msgs, 'Reference file %s not found.' % expected_path)\n            self.add_failures(msgs, None, None, expected_path, actual=actual)"),
      rule='C04-SPLIT', key='check_string_against_file'),
    M('C04', 'comparison-result-dropped', E(RT, "            (failures, msgs) = r\n            self._check_failures(failures, msgs)\n\n    def assertTextFileCorrect(", "            (failures, msgs) = r\n            self._check_failures(0, msgs)\n\n    def assertTextFileCorrect("),
      rule='C04-PROP', key='assertStringCorrect'),
    M('C04', 'handler-swallows-error', E(CF, "                failures += 1\n        return (failures, msgs)", "        return (failures, msgs)"),
      rule='C04-EXC', key='check_files'),
    M('C04', 'permutation-on-truncated-cases', E(CF, "        if permutable and ndiffs > 0 and ndiffs <= max_permutation_cases:", "        if permutable and failure_cases:"),
      rule='C04-PERM', key='bound'),
    M('C04', 'removal-decided-after-strip', E(CF, "                    for i, a in enumerate(original_actual)\n                    if any(r in a for r in remove_lines)", "                    for i, a in enumerate(original_actual)\n                    if any(r in normalize(a) for r in remove_lines)"),
      rule='C04-RAWREMOVE', key='check_strings'),
    M('C04', 'refactor-rename-loop-var', E(CF, "                    for i, a in enumerate(original_expected)\n                    if any(r in a for r in remove_lines)", "                    for i, line in enumerate(original_expected)\n                    if any(r in line for r in remove_lines)"),
      kind='refactor'),
]

VARIANTS += [
    M('C04', 'pattern-tail-taken-from-actual-twice', E(CF, "                    expected_right = mExpected.group(pattern.groups)", "                    expected_right = mActual.group(pattern.groups)"),
      rule='C04-SYM', key='check_patterns'),
    M('C04', 'pattern-tail-parallel-assignment-slip', E(CF, "                    actual_left = mActual.group(1)\n                    expected_left = mExpected.group(1)\n                    actual_right = mActual.group(pattern.groups)\n                    expected_right = mExpected.group(pattern.groups)\n",
                                                        "                    last = pattern.groups\n                    actual_left, expected_left = (\n                        mActual.group(1), mExpected.group(1)\n                    )\n                    actual_right, expected_right = (\n                        mActual.group(last), mActual.group(last)\n                    )\n"),
      rule='C04-SYM', key='check_patterns'),
    M('C04', 'refactor-pattern-groups-parallel-assignment', E(CF, "                    actual_left = mActual.group(1)\n                    expected_left = mExpected.group(1)\n                    actual_right = mActual.group(pattern.groups)\n                    expected_right = mExpected.group(pattern.groups)\n",
                                                              "                    last = pattern.groups\n                    actual_left, expected_left = (\n                        mActual.group(1), mExpected.group(1)\n                    )\n                    actual_right, expected_right = (\n                        mActual.group(last), mExpected.group(last)\n                    )\n"),
      kind='refactor'),
]

UT = 'tdda/referencetest/utils.py'
VARIANTS += [
    M('C04', 'latin1-extensions-as-parenthesised-string', [E(UT, "    OTHER_TEXTS = ('txt',  'tex',", "    LATIN1_FILES = ('pdf')\n    OTHER_TEXTS = ('txt',  'tex',"),
                                                          E(UT, "    ext = get_short_ext(path)\n    if ext == 'pdf':\n        return 'iso-8859-1'", "    ext = get_short_ext(path)\n    if ext in FileType.LATIN1_FILES:\n        return 'iso-8859-1'")],
      rule='C04-WHOLESTR', key='LATIN1_FILES'),
    M('C04', 'refactor-latin1-extensions-as-tuple', [E(UT, "    OTHER_TEXTS = ('txt',  'tex',", "    LATIN1_FILES = ('pdf',)\n    OTHER_TEXTS = ('txt',  'tex',"),
                                                    E(UT, "    ext = get_short_ext(path)\n    if ext == 'pdf':\n        return 'iso-8859-1'", "    ext = get_short_ext(path)\n    if ext in FileType.LATIN1_FILES:\n        return 'iso-8859-1'")],
      kind='refactor'),
]

VARIANTS += [
    M('C04', 'compiled-patterns-remembered-on-the-instance', [E(CF, "    def compile_patterns(self, ignore_patterns):\n", "    def compile_patterns(self, ignore_patterns):\n        if ignore_patterns is getattr(self, '_ignore_patterns', None):\n            return self._compiled_patterns\n"),
                                                               E(CF, "        compiled_patterns = [re.compile(p) for p in anchored_patterns]\n", "        compiled_patterns = [re.compile(p) for p in anchored_patterns]\n        self._ignore_patterns = ignore_patterns\n        self._compiled_patterns = compiled_patterns\n")],
      rule='C04-STATELESS', key='compile_patterns'),
    M('C04', 'refactor-compile-in-local-helper', E(CF, "        compiled_patterns = [re.compile(p) for p in anchored_patterns]\n", "        compile_one = re.compile\n        compiled_patterns = [compile_one(p) for p in anchored_patterns]\n"), kind='refactor'),
    M('C04', 'revert-fix-F35-greedy-ignore-pattern', E('tdda/referencetest/checkfiles.py', "('' if p.startswith('^') else '^(.*?)')", "('' if p.startswith('^') else '^(.*)')"), rule='C04-ORACLE', key='digits-changed'),
    M('C04', 'removal-decided-by-regex-search', E('tdda/referencetest/checkfiles.py', "                    if any(r in a for r in remove_lines)\n                ]\n            )\n            expected_removals", "                    if any(re.search(r, a) for r in remove_lines)\n                ]\n            )\n            expected_removals"), rule='C04-ORACLE', key='removal-text'),
]

VARIANTS += [
    M('C04', 'blank-final-line-dropped-like-an-empty-one', E(CF, "        if actual and len(actual[-1]) == 0:", "        if actual and not actual[-1].strip():"), rule='C04-ORACLE', key='final-line-of-blanks'),
]
