"""Self-validation (DESIGN section 5): mutants must be reported at the mutated
instance, behaviour-preserving refactors must leave every rule silent.

Mutants are text edits of the *current* tree held in memory (overlay); nothing
is written under /repo or /verif.  A mutant whose anchor text is no longer
present is skipped and counted; a missed mutant or a noisy refactor makes the
thorough check exit 2 (ANALYSIS-ERROR), never VIOLATION.
"""
import importlib
import multiprocessing
import os
import sys

HERE = os.path.dirname(os.path.dirname(os.path.abspath(__file__)))
if HERE not in sys.path:
    sys.path.insert(0, HERE)

from sa.model import read_tree, AnalysisError   # noqa: E402
from sa.report import load_known                  # noqa: E402


class M:
    """One variant.  kind 'mutant' must be reported by ``rule`` with ``key``
    occurring in the instance key; kind 'refactor' must add no violation."""

    def __init__(self, pid, name, edits, rule=None, key='', kind='mutant', why=''):
        self.pid = pid
        self.name = name
        self.edits = edits if isinstance(edits, list) else [edits]
        self.rule = rule
        self.key = key
        self.kind = kind
        self.why = why


def E(rel, old, new, count=1):
    return (rel, old, new, count)


def corpus():
    out = []
    for name in ['m_ief'] + ['m_c%02d' % i for i in range(1, 20)]:
        try:
            mod = importlib.import_module('selftest.' + name)
        except ModuleNotFoundError as e:
            if e.name != 'selftest.' + name:
                raise
            continue
        out += mod.VARIANTS
    return out


def _apply(m, tree):
    overlay = {}
    for rel, old, new, count in m.edits:
        src = overlay.get(rel, tree.get(rel))
        if src is None or (src.count(old) != count if count else src.count(old) == 0):
            return None
        overlay[rel] = src.replace(old, new)
    for rel, src in overlay.items():
        compile(src, rel, 'exec', dont_inherit=True)     # still compiles
    return overlay


def _one(args):
    m, root, base, base_deferred = args
    import check
    tree = read_tree(root)
    try:
        ov = _apply(m, tree)
    except SyntaxError as e:
        return (m.name, 'broken', 'mutant does not compile: %s' % e)
    if ov is None:
        return (m.name, 'skipped', 'anchor text not present')
    known = {(k['property'], k['rule'], k['key']) for k in load_known().get('findings', [])}
    try:
        run = check.analyse(m.pid, 'quick', overlay=ov, root=root)
    except AnalysisError as e:
        if m.kind == 'mutant':
            return (m.name, 'analysis-error', str(e))
        return (m.name, 'noisy', 'refactor made the analysis fail: %s' % e)
    v = _viol(run, known)
    new = [x for x in v if x not in base]
    newdef = [d for d in getattr(run, 'deferred', []) if d not in base_deferred]
    if m.kind == 'refactor':
        floors = [(r, c, f) for r, c, f in run.floors if c < f]
        if new or floors or newdef:
            return (m.name, 'noisy', 'refactor reported: %r %r %r' % (new[:3], floors, newdef[:1]))
        return (m.name, 'silent', '')
    hits = [x for x in new if (m.rule is None or x[0] == m.rule) and m.key in x[1]]
    if hits:
        return (m.name, 'caught', '%s %s' % hits[0])
    if newdef:
        return (m.name, 'analysis-error', newdef[0])
    return (m.name, 'missed', 'expected %s ~%r; new violations: %r' % (m.rule, m.key, new[:4]))


def _viol(run, known):
    return sorted({(o.rule, o.key) for o in run.obs if not o.ok and (run.pid, o.rule, o.key) not in known})


def run_for(pid, root=None, jobs=None):
    vs = [m for m in corpus() if m.pid == pid]
    res = []
    if vs:
        import check
        known = {(k['property'], k['rule'], k['key']) for k in load_known().get('findings', [])}
        b = check.analyse(pid, 'quick', root=root)
        base, base_deferred = _viol(b, known), list(getattr(b, 'deferred', []))
        jobs = jobs or min(16, len(vs))
        with multiprocessing.Pool(jobs) as pool:
            res = pool.map(_one, [(m, root, base, base_deferred) for m in vs])
    from selftest import generic
    res = list(res) + generic.run(pid, root=root)
    from selftest import filerefs
    res = list(res) + filerefs.run(pid, root=root)
    # defects planted inside refactored shapes (read in place by sa/specialise.py)
    from selftest import mutated_refactors
    res = list(res) + mutated_refactors.run(pid, root=root)
    # the rules that evaluate tdda's functions rest on the interpreter agreeing with CPython: checked on the machinery's own snippets
    from selftest import conformance
    res = list(res) + conformance.run(root=root)
    summ = {}
    for n, st, msg in res:
        summ[st] = summ.get(st, 0) + 1
    failed = ['%s: %s %s' % (n, st, msg) for n, st, msg in res if st in ('missed', 'noisy', 'broken')]
    # an analysis-error on a mutant is acceptable (fail closed) but reported
    return {'summary': summ, 'variants': [{'name': n, 'outcome': st, 'detail': msg} for n, st, msg in res],
            'failed': failed}


if __name__ == '__main__':
    pids = sys.argv[1:] or sorted({m.pid for m in corpus()})
    bad = 0
    for pid in pids:
        r = run_for(pid)
        print(pid, r['summary'])
        for v in r['variants']:
            if v['outcome'] not in ('caught', 'silent'):
                print('   ', v['name'], v['outcome'], v['detail'])
        bad += len(r['failed'])
    sys.exit(2 if bad else 0)
