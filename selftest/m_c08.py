from .driver import M, E

DR = 'tdda/constraints/db/drivers.py'

VARIANTS = [
    M('C08', 'revert-fix-F32-quoted', E(DR, """            return '"%s"' % name.replace('"', '""')""", """            return '"%s"' % name"""),
      rule='C08-SQLQ', key='quoted'),
    M('C08', 'revert-fix-F16-rex-literal', E(DR, """        rexes = [r.replace("'", "''") for r in rexes]  # inside SQL literals\n""", ""),
      rule='C08-SQLQ', key='get_database_rex_match'),
    M('C08', 'revert-fix-F16c-empty-join', E(DR, "' OR '.join(rexprs) or '1 = 0'))", "' OR '.join(rexprs)))"),
      rule='C08-EMPTYJOIN', key='get_database_rex_match'),
    M('C08', 'revert-fix-F28-regexp-flags', E(DR, "        return re.match(expr, item, re.UNICODE | re.DOTALL) is not None", "        return re.match(expr, item) is not None"),
      rule='C08-REXFLAGS', key='regex_matcher'),
    M('C08', 'column-name-unquoted', E(DR, "        sql = ('SELECT COUNT(*) FROM %s WHERE %s IS NULL'\n               % (tablename, self.quoted(colname)))", "        sql = ('SELECT COUNT(*) FROM %s WHERE %s IS NULL'\n               % (tablename, colname))"),
      rule='C08-SQLQ', key='get_database_nnull'),
    M('C08', 'nunique-reuses-raw-name', E(DR, "        colname = self.quoted(colname)\n        sql = ('SELECT COUNT(DISTINCT %s) FROM %s WHERE %s IS NOT NULL'", "        qcolname = self.quoted(colname)\n        sql = ('SELECT COUNT(DISTINCT %s) FROM %s WHERE %s IS NOT NULL'"),
      rule='C08-SQLQ', key='get_database_nunique'),
    M('C08', 'value-interpolated-into-literal', E(DR, "        whereclause = ('' if include_nulls\n                       else 'WHERE %s IS NOT NULL' % colname)", "        whereclause = ('' if include_nulls\n                       else \"WHERE %s <> '%s'\" % (colname, tablename + colname))"),
      rule='C08-SQLQ', key='get_database_unique_values'),
    M('C08', 'new-unguarded-strptime', E(DR, "    def db_value_to_datetime(self, value):\n        return value\n\n    def default_schema(self):", "    def db_value_to_datetime(self, value):\n        return datetime.datetime.strptime(value, '%Y-%m-%d')\n\n    def default_schema(self):"),
      rule='C08-EXC', key='strptime(value)'),
    M('C08', 'refactor-sql-built-in-two-steps', E(DR, "        sql = ('SELECT COUNT(*) FROM %s WHERE %s IS NOT NULL'\n               % (tablename, self.quoted(colname)))", "        qname = self.quoted(colname)\n        cond = '%s IS NOT NULL' % qname\n        sql = 'SELECT COUNT(*) FROM %s WHERE %s' % (tablename, cond)"),
      kind='refactor'),
    M('C08', 'refactor-fstring-template', E(DR, "        sql = 'SELECT COUNT(*) FROM %s' % tablename\n        return self.execute_scalar(sql)", "        sql = f'SELECT COUNT(*) FROM {tablename}'\n        return self.execute_scalar(sql)"),
      kind='refactor'),
]

VARIANTS += [
    M('C08', 'class-level-type-memo', E(DR, "    def get_database_column_type(self, tablename, colname):\n        typeMap = {", "    column_types = {}\n\n    def get_database_column_type(self, tablename, colname):\n        if (tablename, colname) in self.column_types:\n            return self.column_types[(tablename, colname)]\n        self.column_types[(tablename, colname)] = None\n        typeMap = {"),
      rule='C08-NOSHARED', key='column_types'),
]

VARIANTS += [
    M('C08', 'handler-rolls-back-callers-transaction', E(DR, "        self.cursor = db.connection.cursor()", "        self.dbc.rollback()\n        self.cursor = self.dbc.cursor()"),
      rule='C08-READONLY', key='SQLDatabaseHandler.__init__'),
    M('C08', 'execute_scalar-commits', E(DR, "    def execute_scalar(self, sql):\n", "    def execute_scalar(self, sql):\n        self.dbc.commit()\n"),
      rule='C08-READONLY', key='execute_scalar'),
    M('C08', 'refactor-cursor-from-dbc', E(DR, "        self.cursor = db.connection.cursor()", "        self.cursor = self.dbc.cursor()"), kind='refactor'),
]

VARIANTS += [
    M('C08', 'zero-length-treated-as-no-value', [E(DR, "                return agg(lengths)\n            else:\n                return None\n", "                length = agg(lengths)\n            else:\n                length = None\n"),
                                                 E(DR, "            return self.execute_scalar(sql)\n\n    def get_database_nunique", "            length = self.execute_scalar(sql)\n        return int(length) if length else None\n\n    def get_database_nunique")],
      rule='C08-ZERO', key='extreme_length'),
    M('C08', 'refactor-length-none-test', [E(DR, "                return agg(lengths)\n            else:\n                return None\n", "                length = agg(lengths)\n            else:\n                length = None\n"),
                                           E(DR, "            return self.execute_scalar(sql)\n\n    def get_database_nunique", "            length = self.execute_scalar(sql)\n        return int(length) if length is not None else None\n\n    def get_database_nunique")],
      kind='refactor'),
    M('C08', 'database-rex-hook-drops-falsy-values', E('tdda/constraints/db/constraints.py', "        return rexpy.extract(sorted(values), seed=seed)", "        return rexpy.extract(sorted(v for v in values if v), seed=seed)"),
      rule='C08-REXHOOK', key='find_rexes'),
]
