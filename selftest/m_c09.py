from .driver import M, E

BS = 'tdda/constraints/base.py'
PC = 'tdda/constraints/pd/constraints.py'

VARIANTS = [
    M('C09', 'revert-fix-F29-raw-date', E(BS, "            return OrderedDict((('value',\n                                 Constraint.to_dict_value(self, raw=raw)),\n                                ('precision', self.precision)))", "            return OrderedDict((('value', self.value),\n                                ('precision', self.precision)))", count=2),
      rule='C09-DATEPATH', key='MinConstraint'),
    M('C09', 'revert-fix-F15-rex-null', E(BS, "        Constraint.__init__(self, 'rex',\n                            value if value is None\n                            else [native_definite(v) for v in value])", "        Constraint.__init__(self, 'rex', [native_definite(v) for v in value])"),
      rule='C09-NULLG', key='RexConstraint'),
    M('C09', 'revert-fix-F15-date-null', E(BS, "                    if (is_date and kind in DATE_VALUED_CONSTRAINTS\n                            and constraint.value is not None):", "                    if is_date and kind in DATE_VALUED_CONSTRAINTS:"),
      rule='C09-NULLG', key='get_date'),
    M('C09', 'revert-fix-strip-lines', E(BS, "    return '\\n'.join([line.rstrip() for line in s.split('\\n')])", "    end = '\\n' if s.endswith('\\n') else ''\n    return '\\n'.join([line.rstrip() for line in s.splitlines()]) + end"),
      rule='C09-STRIP', key='separator'),
    M('C09', 'writer-key-not-a-ctor-param', E(BS, "                                ('precision', self.precision)))", "                                ('prec', self.precision)))", count=2),
      rule='C09-KEYS', key='MinConstraint'),
    M('C09', 'unknown-kind-raises', E(BS, "                elif not kind.startswith('#'):\n                    warn('Constraint kind %s for field %s unknown: ignored.'\n                         % (kind, fieldname))", "                elif not kind.startswith('#'):\n                    raise InvalidConstraintSpecification('Constraint kind %s for field %s unknown'\n                         % (kind, fieldname))"),
      rule='C09-UNKNOWN', key='unknown-arm'),
    M('C09', 'metadata-truthiness', E(BS, "            if k in METADATA_KEYS and v is not None:", "            if k in METADATA_KEYS and v:"),
      rule='C09-UNKNOWN', key='falsy-values'),
    M('C09', 'dict-entry-skips-native_definite', E(PC, "        constraints = DatasetConstraints()\n        constraints.initialize_from_dict(native_definite(constraints_path))\n    else:\n        constraints = DatasetConstraints(loadpath=constraints_path)\n    if repair:\n        pdv.repair_field_types(constraints)\n    return pdv.verify(",
                                                   "        constraints = DatasetConstraints()\n        constraints.initialize_from_dict(constraints_path)\n    else:\n        constraints = DatasetConstraints(loadpath=constraints_path)\n    if repair:\n        pdv.repair_field_types(constraints)\n    return pdv.verify("),
      rule='C09-ENTRY', key='verify_df'),
    M('C09', 'to_json-ascii-escapes', E(BS, "                                      indent=4, ensure_ascii=False)) + '\\n'", "                                      indent=4)) + '\\n'"),
      rule='C09-STRIP', key='to_json'),
    M('C09', 'fraction-group-count-wrong', E(BS, "    for rex, L in ((RD, 3), (RDT, 6), (RDTM, 7)):", "    for rex, L in ((RD, 3), (RDT, 6), (RDTM, 6)):"),
      rule='C09-DATELANG', key='groups:RDTM'),
    M('C09', 'refactor-loader-locals-renamed', E(BS, "            for kind, value in c.items():\n                constraint_constructor = FIELD_CONSTRAINTS_MAP.get(kind)\n                if constraint_constructor:\n                    if isinstance(value, dict):\n                        constraint = constraint_constructor(**value)\n                    else:\n                        constraint = constraint_constructor(value)",
                                                 "            for kind, val in c.items():\n                constraint_constructor = FIELD_CONSTRAINTS_MAP.get(kind)\n                if constraint_constructor:\n                    if isinstance(val, dict):\n                        constraint = constraint_constructor(**val)\n                    else:\n                        constraint = constraint_constructor(val)"),
      kind='refactor'),
]

VARIANTS += [
    M('C09', 'type-validity-loop-loses-none', E(BS, "        if type(value) in (list, tuple):\n            for t in value:\n                self.check_validity('type', t, TYPES)\n        else:\n            self.check_validity('type', value, [None], TYPES)\n",
                                                "        allowed_types = value if type(value) in (list, tuple) else [value]\n        for t in allowed_types:\n            self.check_validity('type', t, TYPES)\n"),
      rule='C09-NULLG', key='TypeConstraint'),
    M('C09', 'sign-validity-without-none', E(BS, "        self.check_validity('sign', value, [None], SIGNS)", "        self.check_validity('sign', value, SIGNS)"),
      rule="C09-NULLG", key="SignConstraint"),
    M('C09', 'tddafile-preset-after-load', [E(BS, "        self.loadpath = self.tddafile = loadpath\n        self.source = None\n", "        self.source = None\n"),
                                            E(BS, "        else:\n            self.fields = Fields(per_field_constraints)\n", "        else:\n            self.fields = Fields(per_field_constraints)\n        self.loadpath = self.tddafile = loadpath\n")],
      rule='C09-PRESET', key='DatasetConstraints.__init__'),
    M('C09', 'date-flag-set-when-type-key-is-met', [E(BS, "            is_date = 'type' in c and c['type'] == 'date'\n", "            is_date = False\n"),
                                                    E(BS, "                    if (is_date and kind in DATE_VALUED_CONSTRAINTS\n                            and constraint.value is not None):",
                                                      "                    if kind == 'type':\n                        is_date = constraint.value == 'date'\n                    elif (is_date and kind in DATE_VALUED_CONSTRAINTS\n                            and constraint.value is not None):")],
      rule='C09-KEYORDER', key='initialize_from_dict'),
    M('C09', 'refactor-validity-lists-merged', E(BS, "        self.check_validity('sign', value, [None], SIGNS)", "        self.check_validity('sign', value, [None] + list(SIGNS))"), kind='refactor'),
    M('C09', 'refactor-date-flag-from-get', E(BS, "            is_date = 'type' in c and c['type'] == 'date'\n", "            is_date = c.get('type') == 'date'\n"), kind='refactor'),
    M('C09', 'refactor-counter-in-dict-loop', E(BS, "            for kind, value in c.items():\n                constraint_constructor = FIELD_CONSTRAINTS_MAP.get(kind)\n",
                                                "            n_seen = 0\n            for kind, value in c.items():\n                n_seen += 1\n                constraint_constructor = FIELD_CONSTRAINTS_MAP.get(kind)\n"), kind='refactor'),
]

VARIANTS += [
    M('C09', 'parsed-tdda-files-cached-by-mtime', [E(BS, "class Marks:", "TDDA_FILE_CACHE = {}\n\n\ndef read_tdda_file(path):\n    key = os.path.abspath(path)\n    mtime = os.path.getmtime(path)\n    hit = TDDA_FILE_CACHE.get(key)\n    if hit is not None and hit[0] == mtime:\n        return hit[1]\n    with open(path) as f:\n        obj = json.loads(f.read(), object_pairs_hook=OrderedDict)\n    TDDA_FILE_CACHE[key] = (mtime, obj)\n    return obj\n\n\nclass Marks:")],
      rule='C09-NOCACHE', key='TDDA_FILE_CACHE'),
]

VARIANTS += [
    M('C09', 'dictionary-constraints-skip-type-repair', [E(PC, "    pdv = PandasConstraintVerifier(df, epsilon=epsilon,\n                                   type_checking=type_checking)\n    if isinstance(constraints_path, dict):\n        constraints = DatasetConstraints()\n        constraints.initialize_from_dict(native_definite(constraints_path))\n    else:\n        constraints = DatasetConstraints(loadpath=constraints_path)\n    if repair:\n        pdv.repair_field_types(constraints)\n    return pdv.verify(",
                                                           "    pdv = PandasConstraintVerifier(df, epsilon=epsilon,\n                                   type_checking=type_checking)\n    if isinstance(constraints_path, dict):\n        constraints = DatasetConstraints()\n        constraints.initialize_from_dict(native_definite(constraints_path))\n    else:\n        constraints = DatasetConstraints(loadpath=constraints_path)\n        if repair:\n            pdv.repair_field_types(constraints)\n    return pdv.verify(")],
      rule='C09-SAMEPREP', key='verify_df'),
    M('C09', 'refactor-repair-guard-inverted', [E(PC, "    if repair:\n        pdv.repair_field_types(constraints)\n    return pdv.verify(", "    if not repair:\n        pass\n    else:\n        pdv.repair_field_types(constraints)\n    return pdv.verify(")],
      kind='refactor'),
    M('C09', 'file-load-drops-fields-named-like-comments', E(BS, "        self.initialize_from_dict(native_definite(obj))", "        obj['fields'] = OrderedDict((k, v) for k, v in obj.get('fields', {}).items() if not k.startswith('#'))\n        self.initialize_from_dict(native_definite(obj))"),
      rule='C09-SAMELOAD', key='load'),
]
