from .driver import M, E
from .m_c03 import REV_CARET

RX = 'tdda/rexpy/rexpy.py'

VARIANTS = [
    M('C13', 'revert-fix-F12-caret', REV_CARET, rule='C13-BRACKET', key='escaped_bracket'),
    M('C13', 'anchoring-switched-off', E(RX, "TERMINATE = True  # False", "TERMINATE = False"), rule='C13-ANCHOR', key='TERMINATE'),
    M('C13', 'vrle2re-returns-unanchored', E(RX, "            parts = ws + parts + ws\n        return poss_term_re(''.join(parts))", "            parts = ws + parts + ws\n            return ''.join(parts)\n        return poss_term_re(''.join(parts))"),
      rule='C13-ANCHOR', key='vrle2re'),
    # x{2} instead of xx when tagged: other text, the same strings matched - the property speaks of what is matched (was a mutant
    # of the purely syntactic C13-TAG; DESIGN section 8)
    M('C13', 'tag-changes-quantifier-text-only', E(RX, "        elif m == M == 2 and len(regex) == 1:", "        elif m == M == 2 and len(regex) == 1 and not tagged:"), kind='refactor'),
    M('C13', 'tag-changes-what-is-matched', E(RX, "('{%d,%s}' % (m, M))", "('{%d,%s}' % (m, M + 1 if tagged else M))"), rule=None, key='codes[tag]'),
    M('C13', 'optional-rendered-as-plus', E(RX, "        if (m is None or m == 0) and M is None:\n            part = regex + '*'\n        elif M is None:", "        if m is None and M is None:\n            part = regex + '*'\n        elif M is None:"),
      rule='C13-QUANT', key='fragment2re'),
    M('C13', 'range-upper-bound-dropped', E(RX, "('{%d,%s}' % (m, M))", "('{%d,%s}' % (m, M - 1))"), rule='C13-QUANT', key='fragment2re'),
    M('C13', 'backslash-not-special-in-bracket', E(RX, "    specials = r']\\-^'", "    specials = ']^-'"), rule='C13-BRACKET', key='escaped_bracket'),
    M('C13', 'refactor-quantifier-arms', E(RX, "        elif m == M == 1:\n            part = regex\n", "        elif m == 1 and M == 1:\n            part = regex\n"), kind='refactor'),
]

VARIANTS += [
    M('C13', 'ties-broken-by-rendered-text', E(RX, "            deletions = set(list(sorted(range(len(freqs)),\n                                        key=lambda k: -freqs[k]))[M:])",
                                               "            _, order = terminate_patterns_and_sort(self.results.rex)\n            deletions = set(sorted(order, key=lambda k: -freqs[k])[M:])"),
      rule='C13-TAGFREE', key='find_bad_patterns'),
    M('C13', 'refactor-deletions-without-list', E(RX, "            deletions = set(list(sorted(range(len(freqs)),\n                                        key=lambda k: -freqs[k]))[M:])",
                                                  "            ranked = sorted(range(len(freqs)), key=lambda k: -freqs[k])\n            deletions = set(ranked[M:])"), kind='refactor'),
]

VARIANTS += [
    M('C13', 'no-padding-for-the-empty-pattern', E(RX, "        if self.n_stripped > 0:\n            Cats = self.OutCats if output and self.dialect else self.Cats", "        if parts and self.n_stripped > 0:\n            Cats = self.OutCats if output and self.dialect else self.Cats"),
      rule='C13-WSPAD', key='vrle2re'),
    M('C13', 'refactor-padding-test-truthiness', E(RX, "        if self.n_stripped > 0:\n            Cats = self.OutCats if output and self.dialect else self.Cats", "        if self.n_stripped:\n            Cats = self.OutCats if output and self.dialect else self.Cats"), kind='refactor'),
    M('C13', 'anchor-skipped-when-body-ends-in-dollar', E(RX, "    return '^%s$' % expr", "    return ('' if expr.startswith('^') else '^') + expr + ('' if expr.endswith('$') else '$')"), rule='C13-EXTRACT', key='ends-in-dollar'),
]
