from .driver import M, E

RX = 'tdda/rexpy/rexpy.py'

REV_ISDIGIT = E(RX, "        if c.isdecimal():\n            return cats.Digit.code", "        if c.isdigit():\n            return cats.Digit.code")
REV_CARET = E(RX, "    if not inner and not prefix and not mains and suffix.startswith('^'):\n        # a leading ^ would negate the class\n        suffix = '-^' if suffix == '^-' else '\\\\' + suffix\n", "")
REV_LOOP = E(RX, "            else:\n                # the final attempt added its failures to the examples:\n                # extract again so that the results cover them\n                self.results = self.batch_extract()\n                failex, re_freqs = self.check_fn(self.results.rex, None)\n", "")

VARIANTS = [
    M('C03', 'revert-fix-F13-isdigit', REV_ISDIGIT, rule='C03-CLASS', key='fine_class:Digit'),
    M('C03', 'revert-fix-F12-caret', REV_CARET, rule='C03-BRACKET', key='escaped_bracket'),
    M('C03', 'revert-fix-F11-stale-loop', REV_LOOP, rule='C03-LOOP', key='Extractor.extract'),
    M('C03', 'lowercase-arm-too-wide', E(RX, "        elif 'a' <= c <= 'z':\n            return cats.letter.code", "        elif c.islower():\n            return cats.letter.code"),
      rule='C03-CLASS', key='fine_class:letter'),
    M('C03', 'backslash-not-special-in-bracket', E(RX, "    specials = r']\\-^'", "    specials = ']^-'"), rule='C03-BRACKET', key='escaped_bracket'),
    M('C03', 'grep-backslash-unescaped', E(RX, "    suffix = ((r'\\\\' if '\\\\' in chars else '')", "    suffix = ((('\\\\' if dialect in ('grep', 'posix') else r'\\\\') if '\\\\' in chars else '')"),
      rule='C03-BRACKET', key='escaped_bracket'),
    M('C03', 'dot-left-unescaped', E(RX, "UNESCAPES = '''!\"%',/:;<=>@_` '''", "UNESCAPES = '''!\"%',./:;<=>@_` '''"), rule='C03-ESC', key='UNESCAPES'),
    M('C03', 'fixed-fragment-not-escaped', E(RX, "                refined = self.Cats.escape(list(chars)[0])\n                fixed = True", "                refined = list(chars)[0]\n                fixed = True"),
      rule='C03-ESC', key='refine_fragments'),
    M('C03', 'whitespace-output-class-narrowed', E(RX, "        if dialect in ('portable', 'grep'):\n            self.Digit.set(r'[0-9]')", "        if dialect in ('portable', 'grep'):\n            self.Digit.set(r'[0-9]')\n            self.Whitespace.set(r'[ \\t]')"),
      rule='C03-DIALECT', key='Whitespace'),
    M('C03', 'refactor-loop-as-while-true', E(RX, "                if len(failex.strings) == 0:\n                    break\n                elif (len(failex.strings) <= size.do_all_exceptions", "                n_failed = len(failex.strings)\n                if n_failed == 0:\n                    break\n                elif (len(failex.strings) <= size.do_all_exceptions"),
      kind='refactor'),
    M('C03', 'refactor-fine-class-locals', E(RX, "        cats = self.Cats\n        if c.isdecimal():\n            return cats.Digit.code", "        cats = self.Cats\n        if c.isdecimal():  # decimal digits only\n            return cats.Digit.code"),
      kind='refactor'),
]

VARIANTS += [
    M('C03', 'regex-module-instead-of-re', E(RX, "import re\n", "from tdda.rexpy.relib import re\n"), rule='C03-ENGINE', key='rexpy:re'),
    M('C03', 'output-categories-built-late', [E(RX, "        if dialect is not None:\n            self.OutCats = Categories(self.thin_extras(extra_letters),\n                                      full_escape=full_escape,\n                                      dialect=dialect)  # output dialect\n        self.full_escape = full_escape", "        self.extra_letters_arg = extra_letters\n        self.full_escape = full_escape"),
                                               E(RX, "    def convert_rex_to_dialect(self):\n", "    def convert_rex_to_dialect(self):\n        if self.dialect is not None:\n            self.OutCats = Categories(self.thin_extras(self.extra_letters_arg),\n                                      full_escape=self.full_escape,\n                                      dialect=self.dialect)\n")],
      rule='C03-CATSYNC', key='Categories'),
]

VARIANTS += [
    M('C03', 'characters-seen-capped-with-strings', E(RX, "                        n_strings[i] = len(frag_strings[i])\n                    frag_chars[i] = frag_chars[i].union(set(list(g)))", "                        n_strings[i] = len(frag_strings[i])\n                        frag_chars[i] = frag_chars[i].union(set(list(g)))"),
      rule='C03-EVIDENCE', key='frag_chars'),
    M('C03', 'run-patterns-only-for-first-strings', E(RX, "                    (frag_rlefcs[i],\n                     frag_rlecs[i]) = self.rle_fc_c(g, frag,\n                                                     frag_rlefcs[i],\n                                                     frag_rlecs[i])",
                                                      "                    if n_strings[i] <= size.max_strings_in_group:\n                        (frag_rlefcs[i],\n                         frag_rlecs[i]) = self.rle_fc_c(g, frag,\n                                                         frag_rlefcs[i],\n                                                         frag_rlecs[i])"),
      rule='C03-EVIDENCE', key='frag_rlefcs'),
    M('C03', 'refactor-chars-updated-in-place', E(RX, "                    frag_chars[i] = frag_chars[i].union(set(list(g)))", "                    frag_chars[i].update(g)"), kind='refactor'),
]

VARIANTS += [
    M('C03', 'cap-counter-counts-examples', E(RX, "                        n_strings[i] = len(frag_strings[i])", "                        n_strings[i] += 1"), rule='C03-EVIDENCE', key='cap-counter'),
]

VARIANTS += [
    M('C03', 'emptiness-tested-on-the-stripped-string-always', E(RX, "                stripped = s.strip() if self.strip else s\n                L = len(stripped)\n                if self.remove_empties and L == 0:", "                stripped = s.strip() if self.strip else s\n                L = len(s.strip())\n                if self.remove_empties and L == 0:"),
      rule='C03-DISCARD', key='strip=False,remove_empties=True'),
    M('C03', 'refactor-clean-without-length-local', E(RX, "                L = len(stripped)\n                if self.remove_empties and L == 0:", "                if self.remove_empties and not stripped:"), kind='refactor'),
    M('C03', 'final-pass-takes-only-a-sample', E(RX, "                elif (len(failex.strings) <= size.do_all_exceptions\n                      or attempt > size.max_sampled_attempts):", "                elif len(failex.strings) <= size.do_all_exceptions:"), rule='C03-EXTRACT', key='five-layouts'),
]
