from .driver import M, E

TC = 'tdda/referencetest/referencetestcase.py'
RT = 'tdda/referencetest/referencetest.py'

VARIANTS = [
    M('C19', 'revert-fix-F07-argv-index', E(TC, "    for i, arg in enumerate(argv[1:], 1):", "    for i, arg in enumerate(argv[1:]):"), rule='C19-ARGVIDX', key='_set_flags_from_argv'),
    M('C19', 'tag-attribute-renamed-on-one-side', E(RT, "    test._tagged = True", "    test._tag = True"), rule='C19-LOADER', key='tag-attribute'),
    M('C19', 'tag-looked-up-in-own-dict', E(TC, "            return [name for name in names\n                         if hasattr(getattr(testCaseClass, name), '_tagged')]", "            return [name for name in names\n                         if hasattr(vars(testCaseClass).get(name), '_tagged')]"),
      rule='C19-LOADER', key='getTestCaseNames'),
    M('C19', 'module-loading-unfiltered', E(TC, "        suite = unittest.TestLoader.loadTestsFromModule(self, *args, **kwargs)\n        return self._tagged_tests_only(suite)", "        suite = unittest.TestLoader.loadTestsFromModule(self, *args, **kwargs)\n        return suite"),
      rule='C19-LOADER', key='entry:loadTestsFromModule'),
    M('C19', 'list-mode-still-runs-tests', E(TC, "            if self.check and not isinstance(test, unittest.suite.TestSuite):\n                cases.add('%s.%s' % (test.__class__.__module__,\n                                     test.__class__.__name__))\n            else:\n                newsuite.addTest(test)",
                                             "            if self.check and not isinstance(test, unittest.suite.TestSuite):\n                cases.add('%s.%s' % (test.__class__.__module__,\n                                     test.__class__.__name__))\n            newsuite.addTest(test)"),
      rule='C19-CHECKMODE', key='check=True,item=a ReferenceTestCase'),
    M('C19', 'long-option-overwrites-flags', E(TC, "                if option in ('-0', '--istagged'):\n                    check = True\n                else:\n                    tagged = True", "                check = option == '--istagged'\n                tagged = not check"),
      rule='C19-FLAGS', key='argv='),
    M('C19', 'short-flag-sets-wrong-variable', E(TC, "                elif flag == '0':\n                    check = True", "                elif flag == '0':\n                    tagged = True"), rule='C19-FLAGS', key='argv=-0'),
    M('C19', 'loader-only-when-tagged', E(TC, "    loader = (TaggedTestLoader(check) if tagged or check", "    loader = (TaggedTestLoader(check) if tagged"), rule='C19-CHECKMODE', key='loader-choice'),
    M('C19', 'refactor-loop-var-renamed', [E(TC, "    for i, arg in enumerate(argv[1:], 1):", "    for idx, arg in enumerate(argv[1:], start=1):"),
                                             E(TC, "            argv[i] = '' if arg == '-' else arg", "            argv[idx] = '' if arg == '-' else arg")], kind='refactor'),
]

VARIANTS += [
    M('C19', 'list-mode-fast-path-bypasses-filter', E(TC, "    def loadTestsFromTestCase(self, *args, **kwargs):\n        suite = unittest.TestLoader.loadTestsFromTestCase(self, *args,", "    def loadTestsFromTestCase(self, *args, **kwargs):\n        if self.check and hasattr(args[0], '_tagged'):\n            self.print(args[0].__name__)\n            return unittest.TestSuite()\n        suite = unittest.TestLoader.loadTestsFromTestCase(self, *args,"),
      rule='C19-LOADER', key='entry:loadTestsFromTestCase'),
]

PYT = 'tdda/referencetest/referencepytest.py'
TC2 = 'tdda/referencetest/referencetestcase.py'
VARIANTS += [
    M('C19', 'pytest-listing-keeps-tagged-when-both-options', E(PYT, "            if showtagged or not tagged:\n                items.remove(f)", "            if not (runtagged and tagged):\n                items.remove(f)"),
      rule='C19-PYTABLE', key='--tagged=True,--istagged=True'),
    M('C19', 'pytest-listing-prints-untagged', E(PYT, "            if tagged and showtagged:\n                if cls:", "            if showtagged:\n                if cls:"),
      rule='C19-PYTABLE', key='--istagged=True'),
    M('C19', 'loader-chain-loses-list-mode', E(TC2, "    loader = (TaggedTestLoader(check) if tagged or check\n              else unittest.defaultTestLoader)",
                                               "    if tagged:\n        loader = TaggedTestLoader(False)\n    elif check:\n        loader = TaggedTestLoader(True)\n    else:\n        loader = unittest.defaultTestLoader"),
      rule='C19-CHECKMODE', key='loader-choice:tagged=True,check=True'),
    M('C19', 'refactor-loader-chosen-by-if-chain', E(TC2, "    loader = (TaggedTestLoader(check) if tagged or check\n              else unittest.defaultTestLoader)",
                                                     "    if tagged or check:\n        loader = TaggedTestLoader(check)\n    else:\n        loader = unittest.defaultTestLoader"), kind='refactor'),
    M('C19', 'refactor-pytest-condition-demorgan', E(PYT, "            if showtagged or not tagged:\n                items.remove(f)", "            if not (tagged and not showtagged):\n                items.remove(f)"), kind='refactor'),
]

VARIANTS += [
    M('C19', 'class-tag-copied-onto-inherited-functions', E(RT, "    test._tagged = True\n    return test", "    test._tagged = True\n    if isinstance(test, type):\n        for name in dir(test):\n            if name.startswith('test'):\n                getattr(test, name)._tagged = True\n    return test"),
      rule='C19-LOADER', key='tag-marks-its-argument-only'),
    M('C19', 'listing-drops-only-reference-test-cases', E(TC2, "            if self.check and not isinstance(test, unittest.suite.TestSuite):", "            if self.check and isinstance(test, ReferenceTestCase):"),
      rule='C19-CHECKMODE', key='plain unittest.TestCase'),
    M('C19', 'refactor-listing-test-on-testcase-class', E(TC2, "            if self.check and not isinstance(test, unittest.suite.TestSuite):", "            if self.check and isinstance(test, unittest.TestCase):"), kind='refactor'),
]

VARIANTS += [
    M('C19', 'pytest-listing-dedupes-by-bare-class-name', [E(PYT, "                    if cls not in shownclasses:", "                    if cls.__name__ not in shownclasses:"),
                                                           E(PYT, "                    shownclasses.add(cls)", "                    shownclasses.add(cls.__name__)")],
      rule='C19-PYTABLE', key='--istagged=True'),
]
