from .driver import M, E

PC = 'tdda/constraints/pd/constraints.py'
FL = 'tdda/constraints/flags.py'
PV = 'tdda/constraints/pd/verify.py'
PD = 'tdda/constraints/pd/detect.py'

VARIANTS = [
    M('C17', 'revert-fix-F34-mdpath', E(PC, "                metadata = load_metadata(mdpath)\n                kw = to_pandas_read_csv_args(metadata)\n                return default_csv_loader(path, **kw)\n            elif infer_metadata:", "                metadata = load_metadata(path)\n                kw = to_pandas_read_csv_args(metadata)\n                return default_csv_loader(path, **kw)\n            elif infer_metadata:"),
      rule='C17-DEFUSE', key='load_df::mdpath'),
    M('C17', 'flag-key-misspelt', E(FL, "        params['type_checking'] = flags.type_checking\n    if flags.epsilon is not None:\n        params['epsilon'] = float(flags.epsilon)\n    return flags", "        params['typechecking'] = flags.type_checking\n    if flags.epsilon is not None:\n        params['epsilon'] = float(flags.epsilon)\n    return flags"),
      rule='C17-FLAGS', key='verify:typechecking'),
    M('C17', 'detect-key-dropped-by-kwargs', E(FL, "        params['boolean_ints'] = True", "        params['bool_ints'] = True"), rule='C17-FLAGS', key='detect:bool_ints'),
    M('C17', 'unknown-argument-not-fatal', E(FL, "    if len(more) > 0:\n        print('Unexpected arguments %s\\n' % ' '.join(more),\n              parser.epilog, file=sys.stderr)\n        sys.exit(1)", "    if len(more) > 0:\n        print('Unexpected arguments %s\\n' % ' '.join(more),\n              parser.epilog, file=sys.stderr)"),
      rule='C17-FLAGTABLE', key='tdda verify --bogus'),
    M('C17', 'contradiction-exits-zero', E(FL, "        print('You must not specify both --output-fields and '\n              '--no-output-fields.', file=sys.stderr)\n        sys.exit(1)", "        print('You must not specify both --output-fields and '\n              '--no-output-fields.', file=sys.stderr)\n        sys.exit(0)"),
      rule='C17-FLAGTABLE', key='tdda detect'),
    M('C17', 'missing-input-checked-after-load', E(PV, "        path = params['df_path']\n        if path is not None and path != '-' and not os.path.isfile(path):\n            print('%s does not exist' % path)\n            sys.exit(1)\n        return verify_df_from_file(verbose=self.verbose, **params)", "        path = params['df_path']\n        v = verify_df_from_file(verbose=self.verbose, **params)\n        if path is not None and path != '-' and not os.path.isfile(path):\n            print('%s does not exist' % path)\n            sys.exit(1)\n        return v"),
      rule='C17-EXIT', key='missing-input'),
    M('C17', 'front-end-own-verifier', E(PV, "    df = load_df(df_path)\n    v = verify_df(df, constraints_path, **kwargs)", "    df = load_df(df_path)\n    from tdda.constraints.pd.constraints import PandasConstraintVerifier\n    PandasConstraintVerifier(df)\n    v = verify_df(df, constraints_path, **kwargs)"),
      rule='C17-SAMEAPI', key='verify'),
    M('C17', 'filter-before-row-numbering', E(PC, "        if detect_outpath:\n            index_is_trivial = is_pd_index_trivial(out_df)", "        if detect_outpath:\n            if not detect_write_all:\n                out_df = out_df[out_df[nfailname] > 0]\n            index_is_trivial = is_pd_index_trivial(out_df)"),
      rule='C17-ROWNUM', key='write_detected_records'),
    M('C17', 'refactor-params-update', E(FL, "    params.update({\n        'report': 'all',\n        'ascii': False,\n    })\n    if flags.all:", "    params['report'] = 'all'\n    params['ascii'] = False\n    if flags.all:"), kind='refactor'),
]

VARIANTS += [
    M('C17', 'front-end-touches-output-first', E(PD, "    df = load_df(df_path)\n    v = detect_df(df, constraints_path, outpath=outpath,", "    if outpath and outpath != '-':\n        with open(outpath, 'w'):\n            pass\n    df = load_df(df_path)\n    v = detect_df(df, constraints_path, outpath=outpath,"),
      rule='C17-NOWRITE', key='detect_df_from_file'),
]

PE = 'tdda/constraints/pd/extension.py'
PC2 = 'tdda/constraints/pd/constraints.py'
VARIANTS += [
    M('C17', 'revert-fix-applicable-case', E(PE, "if (ext.lower() in ('.csv'", "if (ext in ('.csv'"), rule='C17-EXTCASE', key='applicable'),
    M('C17', 'load_df-extension-not-lowered', E(PC2, "    exists = os.path.exists(os.path.expanduser(path))\n    stem, ext = os.path.splitext(path)\n    lcstem, ext = stem.lower(), ext.lower()\n",
                                                "    ext = os.path.splitext(path)[1]\n"), rule='C17-EXTCASE', key='load_df'),
    M('C17', 'metadata-extension-not-lowered', E('tdda/serial/reader.py', "    stem, ext = os.path.splitext(path)\n    lcstem, ext = stem.lower(), ext.lower()\n    if ext == '.json':",
                                                 "    stem, ext = os.path.splitext(path)\n    if ext == '.json':"), rule='C17-EXTCASE', key='load_metadata'),
    M('C17', 'save_df-defaults-to-csv', E(PC2, "    else:\n        raise Exception(f'Unknown output format: {fmt}')", "    else:\n        default_csv_writer(df, path, index=index)"),
      rule='C17-EXTCASE', key='save_df'),
    M('C17', 'refactor-ext-lowered-inline', E(PC2, "    stem, ext = os.path.splitext(path)\n    lcstem, ext = stem.lower(), ext.lower()\n\n    if ext == '.parquet':",
                                              "    ext = os.path.splitext(path)[1].lower()\n\n    if ext == '.parquet':"), kind='refactor'),
    M('C17', 'refactor-ext-compare-casefold', E(PE, "if (ext.lower() in ('.csv'", "if (ext.casefold() in ('.csv'"), kind='refactor'),
]

VARIANTS += [
    M('C17', 'output-fields-default-empty-list', E(FL, "    parser.add_argument('--output-fields', nargs='*',\n", "    parser.add_argument('--output-fields', nargs='*', default=[],\n"),
      rule='C17-DEFAULTS', key='detect::flags.output_fields::none-when-absent'),
    M('C17', 'epsilon-default-zero', E(FL, "    parser.add_argument('-epsilon', '--epsilon', type=float,\n                        help='epsilon fuzziness')\n    return parser\n\n\ndef detect_parser",
                                       "    parser.add_argument('-epsilon', '--epsilon', type=float, default=0.0,\n                        help='epsilon fuzziness')\n    return parser\n\n\ndef detect_parser"),
      rule='C17-DEFAULTS', key='verify::flags.epsilon'),
    M('C17', 'refactor-explicit-default-none', E(FL, "    parser.add_argument('--output-fields', nargs='*',\n", "    parser.add_argument('--output-fields', nargs='*', default=None,\n"), kind='refactor'),
]

VARIANTS += [
    M('C17', 'stdin-accepted-only-right-after-the-command', E(PE, "            if a == '-':\n                return True", "            if a == '-' and self.argv[1:2] == ['-']:\n                return True"),
      rule='C17-APPLICABLE', key='argv=verify -7 - c.tdda'),
    M('C17', 'refactor-applicable-with-any', E(PE, "            if a == '-':\n                return True", "            if a in ('-',):\n                return True"), kind='refactor'),
]

VARIANTS += [
    M('C17', 'default-constraints-path-replaces-every-extension', E(PV, "        constraints_path = stem + '.tdda'", "        constraints_path = df_path.replace(ext, '.tdda') if ext else df_path + '.tdda'"),
      rule='C17-DEFAULTTDDA', key='export.csv/part-1.csv'),
    M('C17', 'row-numbers-as-a-series', E(PC, "                            pd.RangeIndex(1, len(df_to_save)+1))", "                            pd.Series(range(1, len(df_to_save)+1)))"), rule='C17-ALIGNED', key='pd.Series'),
]
