from .driver import M, E

GT = 'tdda/referencetest/gentest.py'

VARIANTS = [
    M('C11', 'revert-fix-F09-unguarded-datetime', E(GT, "            d = valid_datetime(n3, n2, n1)\n            if d and (min_time is None\n                      or (d >= min_time and d <= max_time)):", "            d = datetime.datetime(n3, n2, n1)\n            if (min_time is None\n                      or (d >= min_time and d <= max_time)):"),
      rule='C11-EXC', key='is_date_like'),
    M('C11', 'revert-fix-F22-classname', E(GT, "                'CLASSNAME': ''.join(\n                    c if c.isalnum() else '_'\n                    for c in os.path.basename(self.raw_script[5:-3]).upper()\n                ),", "                'CLASSNAME': os.path.basename(self.raw_script[5:-3]).upper(),"),
      rule='C11-TEMPLATE', key='HEADER:CLASSNAME'),
    M('C11', 'revert-fix-F33-docstring', E(GT, "                'GEN_COMMAND': self.cli_command().replace('\"\"\"',\n                                                          r'\\\"\\\"\\\"'),", "                'GEN_COMMAND': self.cli_command(),"),
      rule='C11-TEMPLATE', key='HEADER:GEN_COMMAND'),
    M('C11', 'command-written-without-repr', E(GT, "                'COMMAND': repr(self.command),", "                'COMMAND': \"'%s'\" % self.command,"), rule='C11-TEMPLATE', key='HEADER:COMMAND'),
    M('C11', 'cli-command-shell-quoted', E(GT, "                   repr(self.command),\n                   repr(os.path.basename(self.script)))", "                   shlex.quote(self.command),\n                   shlex.quote(os.path.basename(self.script)))"),
      rule='C11-TEMPLATE', key='HEADER:GEN_COMMAND'),
    M('C11', 'test-name-not-sanitised', E(GT, "                testname = self.test_name(path)", "                testname = os.path.basename(path)"), rule='C11-TEMPLATE', key='test_def:testname:name'),
    M('C11', 'binary-files-not-tested', E(GT, "                else:\n                    f.write(test_def(testname, actual_path, 'BinaryFile',\n                                     ref_path))", "                else:\n                    pass"),
      rule='C11-MUSTEMIT', key='per-file'),
    M('C11', 'cleanup-removes-original-output', E(GT, "            try:\n                shutil.copyfile(path, ref_path)", "            try:\n                shutil.move(path, ref_path)"), rule='C11-EFFECTS', key='shutil.move'),
    M('C11', 'prefix-test-without-separator', E(GT, "    if path.startswith(cwd + os.path.sep):\n        if path not in (cwd, cwd + os.path.sep):", "    if path.startswith(cwd):\n        if path not in (cwd, cwd + os.path.sep):"),
      rule='C11-JOINREPR', key='as_join_repr'),
    M('C11', 'refactor-header-dict-order', E(GT, "                'COMMAND': repr(self.command),\n                'CWD': repr(self.cwd),", "                'CWD': repr(self.cwd),\n                'COMMAND': repr(self.command),"), kind='refactor'),
]

VARIANTS.append(M('C11', 'revert-fix-ip-attribute', E(GT, "        self.ip = self.ip_address  # looked up by name with the other specifics\n", ""), rule='C11-ATTRS', key='::ip'))

VARIANTS += [
    M('C11', 'snapshot-stores-mtime', E(GT, "                            self.snapshot[path] = stat.st_ctime", "                            self.snapshot[path] = stat.st_mtime"), rule='C11-SNAPSHOT', key='snapshot'),
]

UT = 'tdda/referencetest/utils.py'
VARIANTS += [
    M('C11', 'fallback-encoding-recorded-after-return', E(UT, "                    lines = f.readlines()\n                    filetype.encoding = 'iso-8859-1'\n                    return lines\n", "                    return f.readlines()\n                filetype.encoding = 'iso-8859-1'\n"),
      rule='C11-ENCODING', key='protected_readlines'),
    M('C11', 'fallback-encoding-not-recorded', E(UT, "                    lines = f.readlines()\n                    filetype.encoding = 'iso-8859-1'\n                    return lines\n", "                    lines = f.readlines()\n                    return lines\n"),
      rule='C11-ENCODING', key='protected_readlines'),
    M('C11', 'refactor-fallback-encoding-recorded-after-with', E(UT, "                    lines = f.readlines()\n                    filetype.encoding = 'iso-8859-1'\n                    return lines\n", "                    lines = f.readlines()\n                filetype.encoding = 'iso-8859-1'\n                return lines\n"),
      kind='refactor'),
]

VARIANTS += [
    M('C11', 'patterns-kept-when-nothing-matched', E(GT, "        self.reference_files[run] = reference_files.union(extras) - globbed", "        if extras:\n            self.reference_files[run] = reference_files.union(extras) - globbed"),
      rule='C11-GLOBS', key='add_globs'),
    M('C11', 'patterns-not-subtracted', E(GT, "        self.reference_files[run] = reference_files.union(extras) - globbed", "        self.reference_files[run] = reference_files.union(extras)"),
      rule='C11-GLOBS', key='add_globs'),
    M('C11', 'refactor-early-exit-without-patterns', E(GT, "        self.reference_files[run] = reference_files.union(extras) - globbed", "        if not globbed:\n            return\n        self.reference_files[run] = reference_files.union(extras).difference(globbed)"),
      kind='refactor'),
]

CFS = 'tdda/referencetest/checkfiles.py'
VARIANTS += [
    M('C11', 'captured-output-split-on-newline-only', E(CFS, "            actuals = actual.splitlines()\n            actual_ends_with_newline = actual.endswith('\\n')", "            actuals = actual.split('\\n')\n            actual_ends_with_newline = actual.endswith('\\n')"),
      rule='C11-SPLIT', key='check_string_against_file'),
    M('C11', 'revert-fix-F36-filetype-by-base-name', E(GT, "                                or FileType(ref_file))", "                                or FileType(short_path))"), rule='C11-SCRIPT', key='one-iteration'),
    M('C11', 'revert-fix-F37-max-files-keyword', E(GT, "        params['max_snapshot_files'] = flags.max_files", "        params['max_files'] = flags.max_files"), rule='C11-FLAGKW', key='-m 7'),
    M('C11', 'colliding-copy-recorded-in-the-run-directory', E(GT, "                mapped_ref_path = self.ref_path(path) + str(suffix)", "                mapped_ref_path = ref_path"), rule='C11-REFMAP', key='copy_reference_files'),
    M('C11', 'command-with-percent-breaks-template', E(GT, "                'COMMAND': repr(self.command),", "                'COMMAND': repr(self.command) % (),"), rule='C11-SCRIPT', key='command-7'),
    M('C11', 'ref-subdir-strips-every-underscore', E(GT, "        return name[1:] if name.startswith('_') else name", "        return name.lstrip('_')"),
      rule='C11-REFDIR', key='ref_subdir'),
]

VARIANTS += [
    M('C11', 'encoding-guessed-from-a-sample', E(UT, "                for line in open(path, 'rb'):\n                    detector.feed(line)", "                for line in open(path, 'rb').readlines(4096):\n                    detector.feed(line)"),
      rule='C11-ENCODING', key='detector-sees-the-whole-file'),
    M('C11', 'encoding-detection-stops-after-200-lines', E(UT, "                for line in open(path, 'rb'):\n                    detector.feed(line)\n                    if detector.done:\n                        break",
                                                            "                for n_, line in enumerate(open(path, 'rb')):\n                    detector.feed(line)\n                    if detector.done or n_ > 200:\n                        break"),
      rule='C11-ENCODING', key='detector-sees-the-whole-file'),
    M('C11', 'refactor-detection-file-opened-in-with', E(UT, "                for line in open(path, 'rb'):\n                    detector.feed(line)\n                    if detector.done:\n                        break",
                                                          "                with open(path, 'rb') as fh:\n                    for line in fh:\n                        detector.feed(line)\n                        if detector.done:\n                            break"), kind='refactor'),
]

VARIANTS += [
    M('C11', 'temporary-directory-recognised-only-with-a-separator', E(GT, "                tmpdir = self.tmp_dir_shell_var and TMPDIR in line", "                tmpdir = self.tmp_dir_shell_var and TERM_TMPDIR in line"),
      rule='C11-SPECIFICS', key="line='/tmp/tmpGEN'"),
    M('C11', 'host-recognised-only-as-a-whole-word-at-line-start', E(GT, "                host = self.host in line", "                host = line.startswith(self.host)"),
      rule='C11-SPECIFICS', key="line='value deepthought'"),
    M('C11', 'refactor-specifics-flags-in-a-tuple', E(GT, "                if any((datelike, dtlike, host, ip, cwd, homedir, tmpdir,\n                        user)):", "                found = (datelike, dtlike, host, ip, cwd, homedir, tmpdir, user)\n                if any(found):"), kind='refactor'),
]

VARIANTS += [
    M('C11', 'run-directories-made-without-looking', E(GT, "                if not os.path.exists(d):\n                    os.mkdir(d)", "                os.mkdir(d)"), rule='C11-MKDIRSAFE', key='os.mkdir(d)'),
    M('C11', 'refactor-run-directories-with-makedirs', E(GT, "                if not os.path.exists(d):\n                    os.mkdir(d)", "                os.makedirs(d, exist_ok=True)"), kind='refactor'),
]
