"""Conformance of sa/pyeval.py with CPython on selftest/conformance_src.py: every f_*() evaluated both ways must give equal results."""
import os
import sys

HERE = os.path.dirname(os.path.dirname(os.path.abspath(__file__)))


def run(root=None):
    from sa.model import Program
    from sa.pyeval import Interp, Model, Unsupported, Raised
    src = open(os.path.join(HERE, 'selftest', 'conformance_src.py')).read()
    rel = 'tdda/_verif_conformance.py'
    p = Program.load(root=root, overlay={rel: src})
    ns = {'__name__': '_verif_conformance'}
    exec(compile(src, rel, 'exec'), ns)          # the machinery's own snippets, not tdda

    class Ctx(Model):
        def __enter__(self):
            return 'entered'

        def __exit__(self, *a):
            return None
    out = []
    names = sorted(k for k in ns if k.startswith('f_'))
    for nm in names:
        args = [Ctx()] if nm == 'f_with_model' else []
        want = ns[nm](*args)
        try:
            f = p.fn('tdda._verif_conformance.' + nm)
            got = Interp(p).call(f, list(args))
            ok = _same(got, want)
            out.append(('pyeval-conformance-' + nm, 'silent' if ok else 'noisy', '' if ok else 'interpreter %r, CPython %r' % (got, want)))
        except (Unsupported, Raised) as e:
            out.append(('pyeval-conformance-' + nm, 'noisy', 'not evaluable: %s' % e))
        except Exception as e:
            out.append(('pyeval-conformance-' + nm, 'noisy', 'interpreter crashed: %s: %s' % (type(e).__name__, e)))
    out += _specialiser(p, ns)
    return out


def _specialiser(p, ns):
    """sa/specialise.py on the machinery's own wrappers: the specialised tree must contain no call of the helper, and, compiled
    and run by CPython in place of the wrapper, must return and do exactly what the wrapper does"""
    import ast
    from sa.specialise import flat
    out = []
    for clsname, table, mk in (('Limits', 'SPECIALISE_CASES', lambda: ns['Limits'](2, 5)), ('Sorter', 'SPECIALISE_CASES_2', lambda: ns['Sorter']()),
                              ('Copier', 'SPECIALISE_CASES_3', lambda: ns['Copier']()), ('Reporter', 'SPECIALISE_CASES_4', lambda: ns['Reporter']())):
        out += _specialiser_cases(p, ns, clsname, ns[table], mk)
    return out


def _specialiser_cases(p, ns, clsname, table, mk):
    import ast
    from sa.specialise import flat
    out = []
    for nm, cases in table:
        tag = 'specialise-conformance-' + nm
        try:
            f = p.method(clsname, nm)
            g = flat(p, f)
            if g is f and not getattr(f, 'inlined', None):       # (the snippets are new to the vocabulary: read in place at load)
                out.append((tag, 'noisy', 'left as it stands'))
                continue
            text = ast.unparse(g.node)
            left = [w for w in ('_check(', '_check_kind(', '_with(', '_rebinding(', 'SIGN_TABLE', 'operator.', 'lambda ', 'lambda:', 'for ',
                                '_classify(', '_note(', '_is_big(', '_try_copy(', '_place(', '_stat(', '_mode(', 'KINDS', 'PICK', 'pickers', '_emit(', 'rows =', '_report(')
                    if w in text and not (w == 'for ' and nm in ('g_try_helper_in_condition', 'g_count_discarded'))]
            # (the second call in g_call_in_condition is evaluated only sometimes: it must stay where it is)
            left = [w for w in left if not (nm == 'g_call_in_condition' and w == '_is_big(' and text.count('_is_big(') == 1)]
            if left:
                out.append((tag, 'noisy', 'not fully specialised (%s): %s' % (left, text[:300])))
                continue
            ns2 = dict(ns)
            exec(compile(ast.Module([g.node], []), '<specialised>', 'exec'), ns2)     # our own snippet, specialised
            bad = None
            for args in cases:
                a, b = mk(), mk()
                ra = getattr(a, nm)(*args)
                rb = ns2[nm](b, *args)
                sa_, sb_ = getattr(a, 'seen', None) or getattr(a, 'log', None), getattr(b, 'seen', None) or getattr(b, 'log', None)
                if not _same(ra, rb) or sa_ != sb_:
                    bad = 'args %r: wrapper %r %r, specialised %r %r' % (args, ra, sa_, rb, sb_)
                    break
            out.append((tag, 'noisy' if bad else 'silent', bad or ''))
        except Exception as e:
            out.append((tag, 'noisy', 'crashed: %s: %s' % (type(e).__name__, e)))
    return out


def _same(a, b):
    if isinstance(a, (list, tuple)) and isinstance(b, (list, tuple)) and type(a).__name__ == type(b).__name__:
        return len(a) == len(b) and all(_same(x, y) for x, y in zip(a, b))
    if hasattr(a, '_fields') or hasattr(b, '_fields'):
        return tuple(a) == tuple(b) and type(a).__name__ == type(b).__name__
    if isinstance(a, dict) and isinstance(b, dict):
        return list(a.keys()) == list(b.keys()) and all(_same(a[k], b[k]) for k in a)
    return type(a) is type(b) and a == b


if __name__ == '__main__':
    sys.path.insert(0, HERE)
    bad = 0
    for name, st, msg in run():
        if st != 'silent':
            bad += 1
        print(st, name, msg[:300])
    sys.exit(1 if bad else 0)
