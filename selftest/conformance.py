"""Conformance of sa/pyeval.py with CPython on selftest/conformance_src.py: every f_*() evaluated both ways must give equal results."""
import os
import sys

HERE = os.path.dirname(os.path.dirname(os.path.abspath(__file__)))


def run(root=None):
    from sa.model import Program
    from sa.pyeval import Interp, Model, Unsupported, Raised
    src = open(os.path.join(HERE, 'selftest', 'conformance_src.py')).read()
    rel = 'tdda/_verif_conformance.py'
    p = Program.load(root=root, overlay={rel: src})
    ns = {'__name__': '_verif_conformance'}
    exec(compile(src, rel, 'exec'), ns)          # the machinery's own snippets, not tdda

    class Ctx(Model):
        def __enter__(self):
            return 'entered'

        def __exit__(self, *a):
            return None
    out = []
    names = sorted(k for k in ns if k.startswith('f_'))
    for nm in names:
        args = [Ctx()] if nm == 'f_with_model' else []
        want = ns[nm](*args)
        try:
            f = p.fn('tdda._verif_conformance.' + nm)
            got = Interp(p).call(f, list(args))
            ok = _same(got, want)
            out.append(('pyeval-conformance-' + nm, 'silent' if ok else 'noisy', '' if ok else 'interpreter %r, CPython %r' % (got, want)))
        except (Unsupported, Raised) as e:
            out.append(('pyeval-conformance-' + nm, 'noisy', 'not evaluable: %s' % e))
        except Exception as e:
            out.append(('pyeval-conformance-' + nm, 'noisy', 'interpreter crashed: %s: %s' % (type(e).__name__, e)))
    return out


def _same(a, b):
    if isinstance(a, (list, tuple)) and isinstance(b, (list, tuple)) and type(a).__name__ == type(b).__name__:
        return len(a) == len(b) and all(_same(x, y) for x, y in zip(a, b))
    if hasattr(a, '_fields') or hasattr(b, '_fields'):
        return tuple(a) == tuple(b) and type(a).__name__ == type(b).__name__
    if isinstance(a, dict) and isinstance(b, dict):
        return list(a.keys()) == list(b.keys()) and all(_same(a[k], b[k]) for k in a)
    return type(a) is type(b) and a == b


if __name__ == '__main__':
    sys.path.insert(0, HERE)
    bad = 0
    for name, st, msg in run():
        if st != 'silent':
            bad += 1
        print(st, name, msg[:300])
    sys.exit(1 if bad else 0)
