from .driver import M, E

RT = 'tdda/referencetest/referencetest.py'
CF = 'tdda/referencetest/checkfiles.py'
BC = 'tdda/referencetest/basecomparison.py'
TC = 'tdda/referencetest/referencetestcase.py'
PY = 'tdda/referencetest/referencepytest.py'

VARIANTS = [
    M('C10', 'revert-fix-F05-kind-literal', E(RT, "            kind=kind,\n            csv_read_fn=csv_read_fn,\n            check_data=check_data,\n            check_types=check_types,\n            check_order=check_order,\n            condition=condition,\n            sortby=sortby,\n            precision=precision,\n            **kwargs,\n        )\n\n    def assertOnDiskDataFramesCorrect(",
                                               "            kind='kind',\n            csv_read_fn=csv_read_fn,\n            check_data=check_data,\n            check_types=check_types,\n            check_order=check_order,\n            condition=condition,\n            sortby=sortby,\n            precision=precision,\n            **kwargs,\n        )\n\n    def assertOnDiskDataFramesCorrect("),
      rule='C10-KINDFWD', key='assertCSVFileCorrect'),
    M('C10', 'write-reference-in-normal-mode', E(RT, "            r = self.files.check_binary_file(actual_path, expected_path)\n",
                                                 "            r = self.files.check_binary_file(actual_path, expected_path)\n            if r[0]:\n                self._write_reference_file(actual_path, expected_path, binary=True)\n"),
      rule='C10-GUARD', key='assertBinaryFileCorrect'),
    M('C10', 'regeneration-decided-by-other-predicate', E(RT, "        expected_path = self._resolve_reference_path(ref_path, kind=kind)\n        if self._should_regenerate(kind):\n            self._write_reference_file(\n                actual_path, expected_path, lstrip=lstrip, rstrip=rstrip\n            )",
                                                          "        expected_path = self._resolve_reference_path(ref_path, kind=kind)\n        if kind in self.regenerate:\n            self._write_reference_file(\n                actual_path, expected_path, lstrip=lstrip, rstrip=rstrip\n            )"),
      rule='C10-GUARD', key='assertTextFileCorrect'),
    M('C10', 'raw-expected-written-next-to-reference', E(CF, "                    tmpExpectedPath = os.path.join(\n                        self.tmp_dir, 'expected-raw-' + commonname\n                    )",
                                                         "                    tmpExpectedPath = os.path.join(\n                        os.path.dirname(actual_path or ''), 'expected-raw-' + commonname\n                    )"),
      rule='C10-NOWRITE', key='assertStringCorrect'),
    M('C10', 'tmp-path-can-escape-tmp-dir', E(BC, "return os.path.join(self.tmp_dir, prefix + os.path.basename(path))", "return os.path.join(self.tmp_dir, path)"),
      rule='C10-NOWRITE', key='assertDataFrameCorrect'),
    M('C10', 'store-into-regenerate-in-init', E(RT, "        self.assert_fn = assert_fn\n", "        self.assert_fn = assert_fn\n        self.regenerate[None] = False\n"),
      rule='C10-WHOSETS', key='ReferenceTest.__init__'),
    M('C10', 'set_regeneration-from-set_defaults', E(RT, "            elif k == 'tmp_dir':\n                cls.tmp_dir = kwargs[k]\n", "            elif k == 'tmp_dir':\n                cls.tmp_dir = kwargs[k]\n            elif k == 'regenerate':\n                cls.set_regeneration(None, kwargs[k])\n"),
      rule='C10-WHOSETS', key='set_defaults'),
    M('C10', 'write-all-spelling-dropped', E(TC, "    for writeflag in ('--W', '--write-all'):", "    for writeflag in ('--W',):"),
      rule='C10-FLAGS', key='unittest argv=--write-all'),
    M('C10', 'write-flag-sets-all-kinds', E(TC, "                    for r in argv[idx+1:]:\n                        for kind in r.split(','):\n                            ReferenceTestCase.set_regeneration(kind)",
                                            "                    for r in argv[idx+1:]:\n                        for kind in r.split(','):\n                            ReferenceTestCase.set_regeneration(kind)\n                        regenerate = True"),
      rule='C10-FLAGS', key='unittest argv=--write table'),
    M('C10', 'pytest-write-ignores-commas', E(PY, "                for kind in r.split(','):\n                    ReferenceTest.set_regeneration(kind)", "                for kind in [r]:\n                    ReferenceTest.set_regeneration(kind)"),
      rule='C10-FLAGS', key="pytest options=['--write']"),
    M('C10', 'binary-reference-written-in-text-mode', E(RT, "        mode = 'wb' if binary else 'w'\n", "        mode = 'w'\n"),
      rule='C10-RW', key='binary'),
    M('C10', 'parquet-writer-extension-test-differs', E('tdda/referencetest/checkpandas.py', "        ext = os.path.splitext(path)[1].lower()\n        if ext == '.parquet':\n            df.to_parquet(path)", "        ext = os.path.splitext(path)[1]\n        if ext == '.parquet':\n            df.to_parquet(path)"),
      rule='C10-RW', key='parquet'),
    # behaviour-preserving refactors
    M('C10', 'refactor-decision-in-local', E(RT, "        expected_path = self._resolve_reference_path(ref_path, kind=kind)\n        if self._should_regenerate(kind):\n            self._write_reference_result(",
                                             "        expected_path = self._resolve_reference_path(ref_path, kind=kind)\n        regen = self._should_regenerate(kind)\n        if regen:\n            self._write_reference_result("),
      kind='refactor'),
    M('C10', 'refactor-rename-expected_path', E(RT, "        expected_path = self._resolve_reference_path(ref_path, kind=kind)\n        if self._should_regenerate(kind):\n            self._write_reference_file(actual_path, expected_path, binary=True)\n        else:\n            r = self.files.check_binary_file(actual_path, expected_path)",
                                                "        refpath = self._resolve_reference_path(ref_path, kind=kind)\n        if self._should_regenerate(kind):\n            self._write_reference_file(actual_path, refpath, binary=True)\n        else:\n            r = self.files.check_binary_file(actual_path, refpath)"),
      kind='refactor'),
    M('C10', 'refactor-negated-test-arms-swapped', E(RT, "        if self._should_regenerate(kind):\n            self._write_reference_file(actual_path, expected_path, binary=True)\n        else:\n            r = self.files.check_binary_file(actual_path, expected_path)\n            (failures, msgs) = r\n            self._check_failures(failures, msgs)",
                                                     "        if not self._should_regenerate(kind):\n            r = self.files.check_binary_file(actual_path, expected_path)\n            (failures, msgs) = r\n            self._check_failures(failures, msgs)\n        else:\n            self._write_reference_file(actual_path, expected_path, binary=True)"),
      kind='refactor'),
    M('C10', 'refactor-early-return-instead-of-else', E(RT, "        if self._should_regenerate(kind):\n            self._write_reference_file(actual_path, expected_path, binary=True)\n        else:\n            r = self.files.check_binary_file(actual_path, expected_path)\n            (failures, msgs) = r\n            self._check_failures(failures, msgs)",
                                                        "        if self._should_regenerate(kind):\n            self._write_reference_file(actual_path, expected_path, binary=True)\n            return\n        r = self.files.check_binary_file(actual_path, expected_path)\n        (failures, msgs) = r\n        self._check_failures(failures, msgs)"),
      kind='refactor'),
    M('C10', 'refactor-logging-added', E(RT, "        mode = 'wb' if binary else 'w'\n", "        mode = 'wb' if binary else 'w'\n        if self.verbose and self.print_fn:\n            self.print_fn('Writing %s' % reference_path)\n"),
      kind='refactor'),
]

VARIANTS += [
    M('C10', 'empty-kind-means-all-kinds', E(RT, "        cls.regenerate[kind] = regenerate", "        cls.regenerate[kind or None] = regenerate"), rule='C10-WHOSETS', key='set_regeneration::key'),
    M('C10', 'reference-lines-by-file-iteration', E(CF, "                content = f.read()\n                expected_ends_with_newline = content.endswith('\\n')\n                expected = content.splitlines()\n        except IOError:\n            self.info(msgs, 'Reference file %s not found.' % expected_path)\n            self.add_failures(msgs, None, None, expected_path, actual=actual)",
                                                    "                expected = [line.rstrip('\\n') for line in f]\n                expected_ends_with_newline = True\n        except IOError:\n            self.info(msgs, 'Reference file %s not found.' % expected_path)\n            self.add_failures(msgs, None, None, expected_path, actual=actual)"),
      rule='C10-SPLIT', key='check_string_against_file'),
]

VARIANTS += [
    M('C10', 'reference-stripped-as-a-whole', E(RT, "        mode = 'wb' if binary else 'w'\n        with open(reference_path, mode) as fout:", "        mode = 'wb' if binary else 'w'\n        if rstrip and not binary:\n            result = result.rstrip()\n        with open(reference_path, mode) as fout:"),
      rule='C10-VERBATIM', key='_write_reference_result'),
]

VARIANTS += [
    M('C10', 'kind-label-aliased-in-memory-assertion', E(RT, "        expected_path = self._resolve_reference_path(ref_path, kind=kind)\n        if self._should_regenerate(kind):\n            self.pandas._write_reference_dataframe(df, expected_path)",
                                                         "        if kind == 'parquet':\n            kind = 'csv'\n        expected_path = self._resolve_reference_path(ref_path, kind=kind)\n        if self._should_regenerate(kind):\n            self.pandas._write_reference_dataframe(df, expected_path)"),
      rule='C10-KINDFWD', key='assertDataFrameCorrect'),
    M('C10', 'documented-alias-guard-inverted', E(RT, "        if kind == 'parquet':\n            kind = 'csv'  # it's just a key; can be parquet\n        expected_path",
                                                  "        if kind != 'csv':\n            kind = 'csv'  # it's just a key; can be parquet\n        expected_path"),
      rule='C10-KINDFWD', key='assertOnDiskDataFrameCorrect'),
    M('C10', 'refactor-alias-comment-and-quotes', E(RT, "        if kind == 'parquet':\n            kind = 'csv'  # it's just a key; can be parquet\n        expected_path",
                                                    "        if kind == \"parquet\":  # documented alias\n            kind = \"csv\"\n        expected_path"),
      kind='refactor'),
]

VARIANTS += [
    M('C10', 'kind-switched-off-falls-back-to-all-kinds', E(RT, "        if kind not in self.regenerate:\n            kind = None", "        if not self.regenerate.get(kind):\n            kind = None"),
      rule='C10-KINDFLAG', key="kind=csv"),
    M('C10', 'actual-file-decoded-by-its-own-name', E(CF, "            with open(actual_path, encoding=enc) as f:", "            with open(actual_path, encoding=get_encoding(actual_path, encoding)) as f:"),
      rule='C10-SAMEENC', key='summary.pdf'),
    M('C10', 'refactor-kind-flag-by-get', E(RT, "        if kind not in self.regenerate:\n            kind = None\n        return kind in self.regenerate and self.regenerate[kind]",
                                            "        flags = self.regenerate\n        return bool(flags[kind] if kind in flags else flags.get(None, False))"), kind='refactor'),
]
