from .driver import M, E

PC = 'tdda/constraints/pd/constraints.py'
BS = 'tdda/constraints/base.py'

VARIANTS = [
    M('C06', 'allowed-values-detector-gains-a-type-arm',
      E(PC, "        name = verification_field(colname, 'allowed_values')\n        c = self.df[colname]\n        self.out_df[name] = detection_field(c, ~ c.isin(violations))\n",
        "        name = verification_field(colname, 'allowed_values')\n        c = self.df[colname]\n        if pandas_coarse_type(c) != 'string':\n            self.out_df[name] = False\n        else:\n            self.out_df[name] = detection_field(c, ~ c.isin(violations))\n"),
      rule='C06-AGREE', key='detect_allowed_values_constraint'),
    M('C06', 'allowed-and-rex-detectors-share-a-new-helper-with-the-type-arm',
      E(PC, "        name = verification_field(colname, 'allowed_values')\n        c = self.df[colname]\n        self.out_df[name] = detection_field(c, ~ c.isin(violations))\n",
        "        self.detect_violating_values(colname, 'allowed_values', violations)\n\n    def detect_violating_values(self, colname, kind, violations):\n        name = verification_field(colname, kind)\n        c = self.df[colname]\n        if pandas_coarse_type(c) != 'string':\n            self.out_df[name] = False\n        else:\n            self.out_df[name] = detection_field(c, ~ c.isin(violations))\n"),
      rule='C06-AGREE', key='detect_allowed_values_constraint'),
    M('C06', 'revert-fix-F03-sign-flag', E(PC, "        if pandas_coarse_type(c) != 'number':\n            self.out_df[name] = False\n        elif value == 'null':", "        if pandas_coarse_type(c) != 'number':\n            result = False\n        elif value == 'null':"),
      rule='C06-MUSTFLAG', key='detect_sign_constraint'),
    M('C06', 'sign-class-dropped-from-detector', E(PC, "        elif value == 'non-positive':\n            self.out_df[name] = detection_field(c, c <= 0)\n", ""),
      rule='C06-MUSTFLAG', key='detect_sign_constraint'),
    M('C06', 'detector-comparator-strict', E(PC, "            self.out_df[name] = detection_field(c, c >= value)\n        elif precision == 'open':\n            self.out_df[name] = detection_field(c, c > value)",
                                             "            self.out_df[name] = detection_field(c, c > value)\n        elif precision == 'open':\n            self.out_df[name] = detection_field(c, c > value)"),
      rule='C06-AGREE', key='detect_min_constraint'),
    M('C06', 'detector-ignores-date-columns', E(PC, "        elif precision == 'closed' or colname in self.date_cols:\n            self.out_df[name] = detection_field(c, c <= value)", "        elif precision == 'closed':\n            self.out_df[name] = detection_field(c, c <= value)"),
      rule='C06-AGREE', key='detect_max_constraint'),
    M('C06', 'sign-zero-detected-as-nonneg', E(PC, "            self.out_df[name] = detection_field(c, c == 0)", "            self.out_df[name] = detection_field(c, c >= 0)"),
      rule='C06-AGREE', key='detect_sign_constraint'),
    M('C06', 'flag-without-null-helper', E(PC, "            self.out_df[name] = detection_field(c, c.str.len() >= value)", "            self.out_df[name] = c.str.len() >= value"),
      rule='C06-NULLFLAG', key='detect_min_length_constraint'),
    M('C06', 'duplicates-keep-first', E(PC, "unique = ~ self.df.duplicated(colname, keep=False)", "unique = ~ self.df.duplicated(colname)"),
      rule='C06-AGREE', key='detect_no_duplicates_constraint'),
    M('C06', 'stale-output-not-removed-when-present', E(BS, "        with open(detect_outpath, 'w') as f:\n            pass\n        os.remove(detect_outpath)",
                                                        "        if not os.path.exists(detect_outpath):\n            with open(detect_outpath, 'w') as f:\n                pass\n            os.remove(detect_outpath)"),
      rule='C06-OUTFILE', key='pre-emptive-remove'),
    M('C06', 'writer-called-without-failures', E(BS, "    if detect and detected_records_writer and results.failures > 0:", "    if detect and detected_records_writer:"),
      rule='C06-OUTFILE', key='writer-guard'),
    M('C06', 'in-place-columns-added-always', E(PC, "        if detect_in_place:\n            for fname in list(out_df):", "        if detect_in_place or detect_per_constraint:\n            for fname in list(out_df):"),
      rule='C06-INPLACE', key='write_detected_records'),
    M('C06', 'refactor-elif-arms-reordered', E(PC, "        elif value == 'positive':\n            self.out_df[name] = detection_field(c, c > 0)\n        elif value == 'non-negative':\n            self.out_df[name] = detection_field(c, c >= 0)\n",
                                               "        elif value == 'non-negative':\n            self.out_df[name] = detection_field(c, c >= 0)\n        elif value == 'positive':\n            self.out_df[name] = detection_field(c, c > 0)\n"),
      kind='refactor'),
    M('C06', 'refactor-rename-column-local', E(PC, "        name = verification_field(colname, 'max_nulls')\n        c = self.df[colname]\n        self.out_df[name] = pd.notnull(c)", "        flagname = verification_field(colname, 'max_nulls')\n        c = self.df[colname]\n        self.out_df[flagname] = pd.notnull(c)"),
      kind='refactor'),
]

VARIANTS += [
    M('C06', 'only-failing-rows-converted', E(PC, "                df_to_save = convert_output_types(out_df, boolean_ints)", "                rows = out_df if detect_write_all else out_df[out_df[nfailname] > 0]\n                df_to_save = convert_output_types(rows, boolean_ints)"),
      rule='C06-ROWNUM', key='write_detected_records'),
]

VARIANTS += [
    M('C06', 'flag-names-recognised-by-kind-not-suffix', E(PC, "    v = v[:-3]\n    return v in STANDARD_CONSTRAINT_SUFFIXES", "    v = v[:-3]\n    return v in STANDARD_FIELD_CONSTRAINTS"),
      rule='C06-VERNAME', key='kind=max_nulls'),
    M('C06', 'flag-name-suffix-renamed-in-builder-only', E(PC, "    return '%s_%s_ok' % (col, CONSTRAINT_SUFFIX_MAP[ctype])", "    return '%s_%s_OK' % (col, CONSTRAINT_SUFFIX_MAP[ctype])"),
      rule='C06-VERNAME', key='kind=min'),
    M('C06', 'refactor-is_ver_field-suffix-set', E(PC, "    v = v[:-3]\n    return v in STANDARD_CONSTRAINT_SUFFIXES", "    stem = v[:-len('_ok')]\n    return stem in set(STANDARD_CONSTRAINT_SUFFIXES)"), kind='refactor'),
]

VARIANTS += [
    M('C06', 'detection-verifier-built-without-type_checking', E(PC, "    pdv = PandasConstraintVerifier(df, epsilon=epsilon,\n                                   type_checking=type_checking)\n    if isinstance(constraints_path, dict):\n        constraints = DatasetConstraints()\n        constraints.initialize_from_dict(native_definite(constraints_path))\n    else:\n        constraints = DatasetConstraints(loadpath=constraints_path)\n    if repair:\n        pdv.repair_field_types(constraints)\n    return pdv.detect(",
                                                                 "    pdv = PandasConstraintVerifier(df, epsilon=epsilon)\n    if isinstance(constraints_path, dict):\n        constraints = DatasetConstraints()\n        constraints.initialize_from_dict(native_definite(constraints_path))\n    else:\n        constraints = DatasetConstraints(loadpath=constraints_path)\n    if repair:\n        pdv.repair_field_types(constraints)\n    return pdv.detect("),
      rule='C06-SAMESETUP', key='verifier-keywords'),
    M('C06', 'refactor-shared-constraints-loader', [E(PC, "    pdv = PandasConstraintVerifier(df, epsilon=epsilon,\n                                   type_checking=type_checking)\n    if isinstance(constraints_path, dict):\n        constraints = DatasetConstraints()\n        constraints.initialize_from_dict(native_definite(constraints_path))\n    else:\n        constraints = DatasetConstraints(loadpath=constraints_path)\n    if repair:\n        pdv.repair_field_types(constraints)\n    return pdv.detect(",
                                                      "    pdv = PandasConstraintVerifier(df, epsilon=epsilon,\n                                   type_checking=type_checking)\n    constraints = load_constraints_for_df(constraints_path)\n    if repair:\n        pdv.repair_field_types(constraints)\n    return pdv.detect("),
                                                    E(PC, "def discover_df(df, inc_rex=False, df_path=None):", "def load_constraints_for_df(constraints_path):\n    if isinstance(constraints_path, dict):\n        constraints = DatasetConstraints()\n        constraints.initialize_from_dict(native_definite(constraints_path))\n    else:\n        constraints = DatasetConstraints(loadpath=constraints_path)\n    return constraints\n\n\ndef discover_df(df, inc_rex=False, df_path=None):")],
      kind='refactor'),
]

VARIANTS += [
    M('C06', 'record-level-tolerance-proportional-to-the-limit', E(PC, "    return (a >= b) | (a >= fuzz_down(b, epsilon))", "    return (a >= b) | (a >= b - b * epsilon)"), rule='C06-AGREE', key='df_fuzzy_gt'),
]

VARIANTS += [
    M('C06', 'detection-flags-as-a-series-with-a-fresh-index', E(PC, "        return np.where(pd.isnull(column), null, expr.astype('O'))", "        return pd.Series(np.where(pd.isnull(column), null, expr.astype('O')), dtype='O')"),
      rule='C06-ALIGNED', key='detection_field'),
    M('C06', 'failing-mask-reused-after-the-output-index-was-reset', [
        E(PC, "        n_failing_records = (fails > 0).astype(int).sum()", "        failing = fails > 0\n        n_failing_records = failing.astype(int).sum()"),
        E(PC, "        if not detect_write_all:\n            out_df = out_df[out_df[nfailname] > 0]\n        return Detection(", "        if not detect_write_all:\n            out_df = out_df[failing]\n        return Detection(")],
      rule='C06-ALIGNED', key='out_df[failing]'),
    M('C06', 'refactor-detection-flags-as-a-series-with-the-column-index', E(PC, "        return np.where(pd.isnull(column), null, expr.astype('O'))", "        return pd.Series(np.where(pd.isnull(column), null, expr.astype('O')), index=column.index, dtype='O')"), kind='refactor'),
    M('C06', 'refactor-failing-mask-named-at-its-use', E(PC, "        if not detect_write_all:\n            out_df = out_df[out_df[nfailname] > 0]\n        return Detection(", "        if not detect_write_all:\n            still_failing = out_df[nfailname] > 0\n            out_df = out_df[still_failing]\n        return Detection("), kind='refactor'),
]

VARIANTS += [
    M('C06', 'original-columns-joined-by-label', E(PC, "                if fname in list(self.df):\n                    out_df.insert(0, fname, self.df[fname])", "                if fname in list(self.df):\n                    out_df = self.df[[fname]].join(out_df)"),
      rule='C06-ALIGNED', key='join'),
]

VARIANTS += [
    M('C06', 'detected-is-none-without-failing-records', E(PC, "        return self.detection.obj if self.detection else None", "        return self.detection.obj if self.detection and self.detection.n_failing_records else None"),
      rule='C06-DETECTED', key='failing=0'),
    M('C06', 'detection-frame-shares-the-input-index', E(PC, "            index = df.index.copy()", "            index = df.index"), rule='C06-INPLACE', key='index-of-the-detection-frame'),
]

VARIANTS += [
    M('C06', 'refactor-column-names-joined-as-text', E(PC, "                    raise Exception('DataFrame has no column %s' % fname)", "                    raise Exception('DataFrame has no column %s (it has: %s)' % (fname, ', '.join(map(str, self.df.columns))))"), kind='refactor'),
]
