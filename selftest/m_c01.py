from .driver import M, E

BC = 'tdda/constraints/baseconstraints.py'

VARIANTS = [
    M('C01', 'revert-fix-F01-uniqs', E(BC, "        rex_constraint = None\n        uniqs = None\n", "        rex_constraint = None\n"),
      rule='C01-IEF', key='UNBOUND:uniqs', why='reverse of the fix: commit for F-01'),
    M('C01', 'undef-name-in-verifier', E(BC, "        m = self.get_min(colname)\n        M = self.get_max(colname)\n        if self.is_null(m):\n            return True  # no values",
                                         "        m = self.get_min(colname)\n        M = self.get_max(colnam)\n        if self.is_null(m):\n            return True  # no values"),
      rule='C01-IEF', key='UNDEF:colnam'),
    M('C01', 'refactor-rename-local', E(BC, "nNonNull", "n_non_null", count=4), kind='refactor'),
]
