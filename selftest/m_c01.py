from .driver import M, E

BC = 'tdda/constraints/baseconstraints.py'

VARIANTS = [
    M('C01', 'revert-fix-F01-uniqs', E(BC, "        rex_constraint = None\n        uniqs = None\n", "        rex_constraint = None\n"),
      rule='C01-IEF', key='UNBOUND:uniqs', why='reverse of the fix: commit for F-01'),
    M('C01', 'undef-name-in-verifier', E(BC, "        m = self.get_min(colname)\n        M = self.get_max(colname)\n        if self.is_null(m):\n            return True  # no values",
                                         "        m = self.get_min(colname)\n        M = self.get_max(colnam)\n        if self.is_null(m):\n            return True  # no values"),
      rule='C01-IEF', key='UNDEF:colnam'),
    M('C01', 'refactor-rename-local', E(BC, "nNonNull", "n_non_null", count=4), kind='refactor'),
]

BS = 'tdda/constraints/base.py'
PC = 'tdda/constraints/pd/constraints.py'
VARIANTS += [
    M('C01', 'discovery-sign-too-strong-at-zero', E(BC, "                            sign = 'positive' if m > 0 else 'non-negative'", "                            sign = 'positive' if m >= 0 else 'non-negative'"),
      rule='C01-CLOSE', key='sign:(0, 1)'),
    M('C01', 'discovery-sign-branches-swapped', E(BC, "                        elif M <= 0:\n                            sign = 'negative' if M < 0 else 'non-positive'", "                        elif M <= 0:\n                            sign = 'non-positive' if M < 0 else 'negative'"),
      rule='C01-CLOSE', key='sign:(-1, 0)'),
    M('C01', 'discovery-min-with-open-precision', E(BC, "                        min_constraint = MinConstraint(m)", "                        min_constraint = MinConstraint(m, precision='open')"),
      rule='C01-CLOSE', key='kind:min'),
    M('C01', 'discovery-max-from-other-statistic', E(BC, "                    M = self.calc_max(fieldname)", "                    M = self.calc_min(fieldname)"),
      rule='C01-CLOSE', key='kind:max'),
    M('C01', 'verifier-nulls-strict', E(BC, "        result = self.get_null_count(colname) <= value", "        result = self.get_null_count(colname) < value"),
      rule='C01-CLOSE', key='kind:max_nulls'),
    M('C01', 'two-statistics-share-a-cache-key', E(BC, "        return self.get_cached_value('max', colname, self.calc_max)", "        return self.get_cached_value('min', colname, self.calc_max)"),
      rule='C01-SHARED', key='cache-key'),
    M('C01', 'verification-regex-flags-differ', E(PC, "RE_FLAGS = re.UNICODE | re.DOTALL", "RE_FLAGS = re.UNICODE"),
      rule='C01-SHARED', key='rex-flags-value'),
    M('C01', 'date-reader-requires-T', E(BS, "RDT = re.compile(r'^(\\d{4})[-/](\\d{1,2})[-/](\\d{1,2})[ T]'", "RDT = re.compile(r'^(\\d{4})[-/](\\d{1,2})[-/](\\d{1,2})T'"),
      rule='C01-DATELANG', key='writer:naive datetime'),
    M('C01', 'date-fraction-via-float', E(BS, "                return datetime.datetime(*(int(m.group(i))\n                                           for i in range(1, L + 1)))",
                                          "                parts = [int(m.group(i)) for i in range(1, min(L, 6) + 1)]\n                if L == 7:\n                    parts.append(int(float('0.' + m.group(7)) * 1000000))\n                return datetime.datetime(*parts)"),
      rule='C01-DATELANG', key='exact'),
    M('C01', 'verifier-repairs-frame-mid-run', E(BC, "        actual_type = self.get_tdda_type(colname)\n        if self.type_checking == 'strict':", "        actual_type = self.get_tdda_type(colname)\n        if actual_type == 'real':\n            self.df[colname] = self.df[colname].astype(float)\n        if self.type_checking == 'strict':"),
      rule='C01-CACHE', key=''),
    M('C01', 'refactor-discovery-locals-renamed', [E(BC, "                    m = self.calc_min(fieldname)\n                    M = self.calc_max(fieldname)\n                    if not self.is_null(m):\n                        min_constraint = MinConstraint(m)\n                    if not self.is_null(M):\n                        max_constraint = MaxConstraint(M)",
                                                     "                    lo = self.calc_min(fieldname)\n                    hi = self.calc_max(fieldname)\n                    m, M = lo, hi\n                    if not self.is_null(lo):\n                        min_constraint = MinConstraint(lo)\n                    if not self.is_null(hi):\n                        max_constraint = MaxConstraint(hi)")],
      kind='refactor'),
]

RX = 'tdda/rexpy/rexpy.py'
VARIANTS += [
    M('C01', 'rex-digit-class-too-wide', E(RX, "        if c.isdecimal():\n            return cats.Digit.code", "        if c.isdigit():\n            return cats.Digit.code"), rule='C01-REX-CLASS', key='fine_class:Digit'),
    M('C01', 'fuzzy-comparator-ignores-tolerance-direction', E(BS, "    return (a >= b) or (a >= fuzz_down(b, epsilon))", "    return (a >= b) or (a >= fuzz_up(b, epsilon))"), rule='C01-CLOSE', key='fuzzy_greater_than'),
    # not a refactoring: an integer limit beyond 2**53 is moved by the float factor (even 1.0), so the exact disjunct is what keeps
    # a column's own extreme acceptable (seed C01-c)
    M('C01', 'fuzzy-comparator-loses-exact-disjunct', E(BS, "    return (a >= b) or (a >= fuzz_down(b, epsilon))", "    return a >= fuzz_down(b, epsilon)"), rule='C01-CLOSE', key='fuzzy_greater_than'),
]

VARIANTS += [
    M('C01', 'tdda-text-split-with-splitlines', E(BS, "s.split('\\n')", "s.splitlines()"), rule='C01-STRIP', key='strip_lines'),
    M('C01', 'characters-seen-capped-with-strings', E(RX, "                        n_strings[i] = len(frag_strings[i])\n                    frag_chars[i] = frag_chars[i].union(set(list(g)))", "                        n_strings[i] = len(frag_strings[i])\n                        frag_chars[i] = frag_chars[i].union(set(list(g)))"),
      rule='C01-REX-EVIDENCE', key='frag_chars'),
    M('C01', 'pandas-rex-hook-drops-empty-strings', E(PC, "            return rexpy.extract(values, seed=None)", "            return rexpy.extract(values, remove_empties=True, seed=None)"),
      rule='C01-REXHOOK', key='find_rexes'),
]
