from .driver import M, E

CW = 'tdda/serial/csvw.py'
PI = 'tdda/serial/pandasio.py'

VARIANTS = [
    M('C16', 'revert-fix-F19-header-key', E(CW, "        header = self.get_val(dialect, 'header')\n        self.header_rows", "        header = self.get_val(dialect, 'headerRowCount')\n        self.header_rows"), rule='C16-DKEYS', key='header-rows'),
    M('C16', 'fraction-step-dropped', E(CW, "           .replace('SSS', 'S')\n", ""), rule='C16-CHAIN', key='csvw_date_format'),
    M('C16', 'minutes-before-months', E(CW, "           .replace('MM', 'M')\n           .replace('M', '%m')\n           .replace('yyyy', '%Y')\n           .replace('yy', '%y')\n           .replace('HH', '%H')\n           .replace('mm', '%M')", "           .replace('mm', '%M')\n           .replace('MM', 'M')\n           .replace('M', '%m')\n           .replace('yyyy', '%Y')\n           .replace('yy', '%y')\n           .replace('HH', '%H')"),
      rule='C16-CHAIN', key='csvw_date_format'),
    M('C16', 'seconds-before-fraction', E(CW, "           .replace('SSS', 'S')\n           .replace('SS', 'S')\n           .replace('S', '%f')\n           .replace('ss', '%S')", "           .replace('ss', '%S')\n           .replace('SSS', 'S')\n           .replace('SS', 'S')\n           .replace('S', '%f')"),
      rule='C16-CHAIN', key='csvw_date_format'),
    M('C16', 'two-digit-year-maps-to-four', E(CW, "           .replace('yy', '%y')", "           .replace('yy', '%Y')"), rule='C16-CHAIN', key='csvw_date_format'),
    M('C16', 'header-rows-defaulted-with-or', E(CW, "        self.header_rows = 0 if header == False else nvl(header_rows, 1)", "        self.header_rows = 0 if header == False else (header_rows or 1)"), rule='C16-DKEYS', key='header-rows'),
    M('C16', 'integer-read-as-float', E(PI, "    'int': 'Int64',", "    'int': 'float',"), rule='C16-TYPES', key='type:integer'),
    M('C16', 'csvw-type-without-dtype', E(CW, "    'double': 'number',", "    'double': 'double',"), rule='C16-TYPES', key='closed'),
    M('C16', 'dates-get-a-dtype', E(PI, "        if f.name not in date_fields\n        and MTYPE_TO_PANDAS_DTYPE.get(f.mtype) is not None", "        if MTYPE_TO_PANDAS_DTYPE.get(f.mtype) is not None"), rule='C16-TYPES', key='read_csv-arguments'),
    M('C16', 'refactor-chain-as-loop', E(CW, "    outfmt = (\n        fmt.replace('dd', 'd')\n           .replace('d', '%d')", "    outfmt = (\n        fmt.replace('dd', 'd').replace('d', '%d')"), kind='refactor'),
]

RD = 'tdda/serial/reader.py'
VARIANTS += [
    M('C16', 'metadata-loader-memoised', [E(RD, "def load_metadata(", "@functools.lru_cache(maxsize=128)\ndef load_metadata("), E(RD, "import os\n", "import os\nimport functools\n")],
      rule='C16-NOCACHE', key='reader'),
]

SB = 'tdda/serial/base.py'
VARIANTS += [
    M('C16', 'iso-regex-dot-unescaped', E(SB, "RE_ISO8601 = r'^%Y-%m-%d([T ]%H:%M:%S(\\.%f)?)?$'", "ISO8601_DATE = r'%Y-%m-%d'\nISO8601_TIME = r'%H:%M:%S(.%f)?'\nRE_ISO8601 = r'^' + ISO8601_DATE + r'([T ]' + ISO8601_TIME + r')?$'"),
      rule='C16-ISOLANG', key='included'),
    M('C16', 'iso-regex-any-date-separator', E(SB, "RE_ISO8601 = r'^%Y-%m-%d([T ]%H:%M:%S(\\.%f)?)?$'", "RE_ISO8601 = r'^%Y[-/]%m[-/]%d([T ]%H:%M:%S(\\.%f)?)?$'"),
      rule='C16-ISOLANG', key='included'),
    M('C16', 'iso-regex-loses-fraction', E(SB, "RE_ISO8601 = r'^%Y-%m-%d([T ]%H:%M:%S(\\.%f)?)?$'", "RE_ISO8601 = r'^%Y-%m-%d([T ]%H:%M:%S)?$'"),
      rule='C16-ISOLANG', key='accepts %Y-%m-%d %H:%M:%S.%f'),
    M('C16', 'refactor-iso-regex-in-parts', E(SB, "RE_ISO8601 = r'^%Y-%m-%d([T ]%H:%M:%S(\\.%f)?)?$'", "ISO8601_DATE = r'%Y-%m-%d'\nISO8601_TIME = r'%H:%M:%S([.]%f)?'\nRE_ISO8601 = r'^' + ISO8601_DATE + r'(?:[T ]' + ISO8601_TIME + r')?$'"),
      kind='refactor'),
]

VARIANTS += [
    M('C16', 'provenance-overwrites-explicit-encoding', E(CW, "                    if dialect.get('encoding') is None:\n                        dialect['encoding'] = encoding", "                    if encoding is not None:\n                        dialect['encoding'] = encoding"),
      rule='C16-EXPLICIT', key='explicit'),
    M('C16', 'provenance-overwrites-explicit-delimiter', [E(CW, "                            if dialect.get('delimiter') is None:\n                                dialect['delimiter'] = delimiter", "                            if delimiter:\n                                dialect['delimiter'] = delimiter"),
                                                           E(CW, "                    if dcdialect and not dialect.get('delimiter'):", "                    if dcdialect:")],
      rule='C16-EXPLICIT', key='explicit'),
    M('C16', 'refactor-absence-by-membership', E(CW, "                    if dialect.get('encoding') is None:\n                        dialect['encoding'] = encoding", "                    if not dialect.get('encoding'):\n                        dialect['encoding'] = encoding"), kind='refactor'),
]

VARIANTS += [
    M('C16', 'declared-types-forgotten-when-upgrading-is-off', [E(RD, "    specified_types = kw.get('dtype')\n", "    specified_types = kw.get('dtype') if upgrade_types else None\n"),
                                                                E(RD, "    if upgrade_types and specified_types:", "    if specified_types:")],
      rule='C16-DECLARED', key='poss_upgrade_to_int'),
    M('C16', 'possible-ints-upgraded-for-every-column', E(RD, "            if not k in (specified_types or []):\n                poss_upgrade_to_int(df, k)", "            poss_upgrade_to_int(df, k)"),
      rule='C16-DECLARED', key='poss_upgrade_to_int'),
    M('C16', 'refactor-declared-set-local', E(RD, "            if not k in (specified_types or []):\n                poss_upgrade_to_int(df, k)", "            declared = specified_types or {}\n            if k not in declared:\n                poss_upgrade_to_int(df, k)"), kind='refactor'),
]

VARIANTS += [
    M('C16', 'boolean-spellings-kept-for-first-column-only', E(PI, "                trues.add(parts[0])\n                falses.add(parts[1])", "                trues.add(parts[0])\n                falses.add(parts[1])\n                kw.setdefault('true_values', [parts[0]])"),
      rule='C16-ACCUM', key='to_pandas_read_csv_args'),
    M('C16', 'refactor-accumulate-through-setdefault-append', E(PI, "                trues.add(parts[0])\n                falses.add(parts[1])", "                trues.add(parts[0])\n                falses.add(parts[1])\n                seen_formats = {}\n                seen_formats.setdefault('boolean', []).append(parts)"),
      kind='refactor'),
]

VARIANTS += [
    M('C16', 'titles-equal-to-the-name-dropped', E(CW, "                if isinstance(titles, list):\n                    field.altnames = titles", "                if isinstance(titles, list):\n                    field.altnames = [t for t in titles if t != name]"),
      rule='C16-TITLES', key='titles:'),
    M('C16', 'table-group-url-taken-from-the-first-table', E(CW, "            self._table.get('url') if self._table else None", "            self._csvw['tables'][0].get('url') if self._csvw.get('tables') else (self._table.get('url') if self._table else None)"),
      rule='C16-TABLEGROUP', key='table_number=1'),
]

SU = 'tdda/serial/utils.py'
VARIANTS += [
    M('C16', 'metadata-looked-up-by-the-name-before-the-first-dot', E(SU, "    pathstem = os.path.splitext(base)[0]", "    pathstem = os.path.join(os.path.dirname(base), os.path.basename(base).split('.')[0])"),
      rule='C16-OWNMETA', key='sales.eu.csv'),
    M('C16', 'refactor-metadata-stem-by-rpartition', E(SU, "    pathstem = os.path.splitext(base)[0]", "    root, ext = os.path.splitext(base)\n    pathstem = root"), kind='refactor'),
]
