"""A defect planted *inside a refactored shape*: a behaviour-preserving refactoring of refactors/ is applied (in memory) and then
one line of the refactored code is broken.  The check of the property must report it - through the helper, table, closure or
decorator the refactoring introduced (sa/specialise.py reads those in place).  Detection on the pinned shape is what the mutants
of m_cXX.py show; this shows that it survives the restructurings the rules are silent on."""
import os
import sys

HERE = os.path.dirname(os.path.dirname(os.path.abspath(__file__)))
if HERE not in sys.path:
    sys.path.insert(0, HERE)

from sa.model import read_tree, AnalysisError      # noqa: E402
from sa.report import load_known                     # noqa: E402

BC = 'tdda/constraints/baseconstraints.py'
PC = 'tdda/constraints/pd/constraints.py'
RT = 'tdda/referencetest/referencetest.py'

# (name, refactoring, file, text in the refactored file, broken text, property, rule prefixes any of which must report)
CASES = [
    ('limit-helper-open-comparison-not-strict', 'C17-13', BC, '(operator.le, operator.lt, fuzzy_less_than)', '(operator.le, operator.le, fuzzy_less_than)',
     'C02', ('C02-SEM', 'C02-VERDICT', 'C02-MIRROR')),
    ('length-helper-min-comparison-strict', 'C06-13', BC, 'result = extreme >= value if is_min else extreme <= value',
     'result = extreme > value if is_min else extreme <= value', 'C02', ('C02-SEM', 'C02-VERDICT', 'C02-MIRROR')),
    ('length-helper-min-comparison-strict/closure', 'C06-13', BC, 'result = extreme >= value if is_min else extreme <= value',
     'result = extreme > value if is_min else extreme <= value', 'C01', ('C01-CLOSE', 'C01-LOOP')),
    ('sign-table-zero-ignores-maximum', 'C01-13', BC, "('zero', lambda m, M: m == M == 0)", "('zero', lambda m, M: m == 0)",
     'C02', ('C02-SEM', 'C02-VERDICT')),
    ('shared-flag-helper-not-negated', 'C06-15', PC, 'return detection_field(c, ~ c.isin(violations))', 'return detection_field(c, c.isin(violations))',
     'C06', ('C06-AGREE',)),
    ('driver-runs-the-regeneration-closure-in-normal-mode', 'C04-16', RT, '    if reftest._should_regenerate(kind):\n        regenerate()',
     '    if not reftest._should_regenerate(kind):\n        regenerate()', 'C10', ('C10-NOWRITE', 'C10-')),
    ('comparison-table-open-is-closed', 'C02-18', BC, "MIN_COMPARISONS = {'closed': operator.ge, 'open': operator.gt}",
     "MIN_COMPARISONS = {'closed': operator.ge, 'open': operator.ge}", 'C02', ('C02-SEM', 'C02-VERDICT', 'C02-MIRROR')),
    ('guard-decorator-passes-a-missing-column', 'C02-19', BC, '        if not self.column_exists(colname):\n            return False\n        return verifier(',
     '        if not self.column_exists(colname):\n            return True\n        return verifier(', 'C02', ('C02-GUARD', 'C02-VERDICT', 'C02-SEM')),
    ('calculator-table-min-computes-max', 'C08-20', BC, "'min': 'calc_min',", "'min': 'calc_max',", 'C01', ('C01-',)),
    ('driver-drops-the-failure-report', 'C12-20', RT, '        (failures, msgs) = check(*args, **kwargs)\n        self._check_failures(failures, msgs)',
     '        (failures, msgs) = check(*args, **kwargs)', 'C04', ('C04-PROP',)),
]


def _one(args):
    (name, ref, rel, old, new, pid, rules), root = args
    import check
    from selftest.filerefs import overlay_for, RDIR
    label = 'defect-in-refactored-shape-' + name
    tree = read_tree(root)
    ov = overlay_for(os.path.join(RDIR, ref, 'patch.diff'), tree)
    if ov is None or rel not in ov:
        return (label, 'skipped', 'refactoring %s no longer applies' % ref)
    if ov[rel].count(old) != 1:
        return (label, 'skipped', 'anchor text not present once in the refactored file')
    try:
        base = check.analyse(pid, 'quick', overlay=dict(ov), root=root)
        ov2 = dict(ov)
        ov2[rel] = ov[rel].replace(old, new, 1)
        compile(ov2[rel], rel, 'exec', dont_inherit=True)
        run = check.analyse(pid, 'quick', overlay=ov2, root=root)
    except AnalysisError as e:
        return (label, 'analysis-error', str(e)[:160])
    known = {(k['property'], k['rule'], k['key']) for k in load_known().get('findings', [])}
    b = {(o.rule, o.key) for o in base.obs if not o.ok}
    new_v = sorted({(o.rule, o.key) for o in run.obs if not o.ok and (pid, o.rule, o.key) not in known} - b)
    hits = [x for x in new_v if any(x[0].startswith(r) for r in rules)]
    if hits:
        return (label, 'caught', '%s %s' % hits[0])
    if getattr(run, 'deferred', None) and not getattr(base, 'deferred', None):
        return (label, 'analysis-error', str(run.deferred[0])[:160])
    return (label, 'missed', 'expected one of %s; new violations: %r' % (list(rules), new_v[:3]))


def run(pid, root=None):
    import multiprocessing
    cases = [c for c in CASES if c[5] == pid]
    if not cases:
        return []
    with multiprocessing.Pool(min(8, len(cases))) as pool:
        return pool.map(_one, [(c, root) for c in cases])


if __name__ == '__main__':
    bad = 0
    for pid in sorted({c[5] for c in CASES}):
        for name, st, msg in run(pid):
            print(st, name, msg[:200])
            bad += st not in ('caught',)
    sys.exit(1 if bad else 0)
