from .driver import M, E

CP = 'tdda/referencetest/checkpandas.py'
RT = 'tdda/referencetest/referencetest.py'

VARIANTS = [
    M('C05', 'reference-frame-not-rounded', E(CP, "            ref_df = ref_df.round(self.precision).reset_index(\n                drop=True\n            )", "            ref_df = ref_df.reset_index(\n                drop=True\n            )"),
      rule='C05-SYM', key='same_structure_ddiff'),
    M('C05', 'condition-applied-to-one-frame', E(CP, "            ref_df = ref_df[condition(ref_df)].reindex()", "            ref_df = ref_df.reindex()"), rule='C05-SYM', key='check_dataframe'),
    M('C05', 'ordering-reported-but-not-failing', E(CP, "            (missing_cols, extra_cols, wrong_types, wrong_ordering)\n        )", "            (missing_cols, extra_cols, wrong_types)\n        )\n        if wrong_ordering:\n            self.different_column_orders(diffs, df, ref_df)"),
      rule='C05-RFAIL', key='different_column_orders'),
    M('C05', 'row-count-reported-but-not-failing', E(CP, "            self.different_numbers_of_rows(diffs, na, nr)\n            same = False", "            self.different_numbers_of_rows(diffs, na, nr)"),
      rule='C05-RFAIL', key='different_numbers_of_rows'),
    M('C05', 'precision-sticks-between-calls', E(CP, "        self.precision = nvl(precision, 6)", "        self.precision = nvl(precision, getattr(self, 'precision', 6))"), rule='C05-STATE', key='self.precision'),
    M('C05', 'order-taken-from-option-list', E(CP, "            order2 = [c for c in list(ref_df) if c in check_order if c in df]", "            order2 = [c for c in check_order if c in ref_df if c in df]"), rule='C05-ORDER', key='order-comparison'),
    M('C05', 'failures-not-asserted', E(RT, "        (failures, msgs) = r\n        self._check_failures(failures, msgs)\n\n    def assertDataFrameCorrect(", "        (failures, msgs) = r\n        self._check_failures(0 * failures, msgs)\n\n    def assertDataFrameCorrect("),
      rule=None, key=''),
    M('C05', 'refactor-same-len-inline', E(CP, "        same_len = na == nr\n        if not same_len:", "        if na != nr:"), kind='refactor'),
]

VARIANTS += [
    M('C05', 'cached-parquet-reads', [E(CP, "import os\n", "import os\nimport functools\n"), E(CP, "def default_csv_loader(", "@functools.lru_cache(maxsize=32)\ndef read_parquet_cached(path):\n    return pd.read_parquet(path)\n\n\ndef default_csv_loader(")],
      rule='C05-NOCACHE', key='checkpandas'),
    M('C05', 'multi-file-entry-drops-sortby', E(CP, "                    check_order=check_order,\n                    sortby=sortby,\n                    condition=condition,\n                    msgs=msgs,\n                    **kwargs,", "                    check_order=check_order,\n                    condition=condition,\n                    msgs=msgs,\n                    **kwargs,"),
      rule='C05-FORWARD', key='check_serialized_dataframes'),
]

VARIANTS += [
    M('C05', 'rounding-map-from-actual-frame-only', E(CP, "            df = df.round(self.precision).reset_index(drop=True)\n            ref_df = ref_df.round(self.precision).reset_index(\n                drop=True\n            )",
                                                      "            decimals = {\n                c: self.precision for c in df.select_dtypes(include='float')\n            }\n            df = df.round(decimals).reset_index(drop=True)\n            ref_df = ref_df.round(decimals).reset_index(drop=True)"),
      rule='C05-SYM', key='decimals'),
    M('C05', 'refactor-rounding-map-from-both-frames', E(CP, "            df = df.round(self.precision).reset_index(drop=True)\n            ref_df = ref_df.round(self.precision).reset_index(\n                drop=True\n            )",
                                                         "            decimals = {\n                c: self.precision for c in list(df.select_dtypes(include='float')) + list(ref_df.select_dtypes(include='float'))\n            }\n            df = df.round(decimals).reset_index(drop=True)\n            ref_df = ref_df.round(decimals).reset_index(drop=True)"),
      kind='refactor'),
]

VARIANTS += [
    M('C05', 'revert-fix-unguarded-item-on-reduction', E(CP, "    return ColDiff(different, int(different.sum()))", "    return ColDiff(different, different.sum().item())"),
      rule='C05-IEF', key='NOITEM'),
    M('C05', 'refactor-item-through-py_val-guard', E(CP, "    return ColDiff(different, int(different.sum()))", "    n = different.sum()\n    if hasattr(n, 'item'):\n        n = n.item()\n    return ColDiff(different, n)"), kind='refactor'),
]

VARIANTS += [
    M('C05', 'option-forwarded-under-another-name', E(RT, "                check_order=check_order,\n                condition=condition,\n                sortby=sortby,\n                precision=precision,\n                type_matching=type_matching,",
                                                     "                check_order=check_data,\n                condition=condition,\n                sortby=sortby,\n                precision=precision,\n                type_matching=type_matching,"),
      rule='C05-FORWARD', key='crossed'),
]

VARIANTS += [
    M('C05', 'categoricals-converted-after-the-sort', [E(CP, "        df = replace_cats(df)\n        ref_df = replace_cats(ref_df)\n", ""),
                                                      E(CP, "                nd = self.same_structure_ddiff(df[cols], ref_df[cols], diffs)", "                nd = self.same_structure_ddiff(replace_cats(df[cols]), replace_cats(ref_df[cols]), diffs)")],
      rule='C05-CATFIRST', key='sort_values'),
    M('C05', 'refactor-categoricals-converted-in-one-statement', E(CP, "        df = replace_cats(df)\n        ref_df = replace_cats(ref_df)\n", "        df = replace_cats(df)\n        ref_df = replace_cats(ref_df)\n"), kind='refactor'),
    M('C05', 'strict-types-ignore-brackets', E(CP, "    if level is None or level == 'strict' or t1.name == t2.name:\n        return t1.name == t2.name", "    if level is None or level == 'strict' or t1.name == t2.name:\n        return t1.name.split('[')[0] == t2.name.split('[')[0]"), rule='C05-TYPELEVEL', key='types_match'),
    M('C05', 'rows-counted-before-the-condition', E(CP, "        if condition:\n            df = df[condition(df)].reindex()\n            ref_df = ref_df[condition(ref_df)].reindex()\n\n        na, nr = len(df), len(ref_df)", "        na, nr = len(df), len(ref_df)\n        if condition:\n            df = df[condition(df)].reindex()\n            ref_df = ref_df[condition(ref_df)].reindex()\n"), rule='C05-ROWSAFTER', key='check_dataframe'),
]

VARIANTS += [
    M('C05', 'first-non-null-fetched-by-label', E(CP, "            nonnulls = df[df[c].notnull()].reset_index()[c]", "            nonnulls = df[c].dropna()"), rule='C05-POSLOOKUP', key='nonnulls[0]'),
    M('C05', 'refactor-first-non-null-by-iloc', [E(CP, "            nonnulls = df[df[c].notnull()].reset_index()[c]", "            nonnulls = df[c].dropna()"),
                                                  E(CP, "type(nonnulls[0]) is bytes", "type(nonnulls.iloc[0]) is bytes")], kind='refactor'),
]
