#!/usr/bin/env python3
"""Prompt for a sub-agent that writes behaviour-preserving refactorings (to test that the checks stay silent)."""
import json, sys
pid, wt = sys.argv[1], sys.argv[2]
for l in open('/verif/properties.jsonl'):
    p = json.loads(l)
    if p['id'] == pid:
        break
print(f"""You are helping evaluate a verification effort for the open-source Python library tdda (test-driven data analysis: reference-test assertions, pandas/DB constraint discovery and verification, regex inference "rexpy", and test generation "gentest").

You have your own scratch git worktree of the library at {wt} (a detached checkout). Work ONLY inside {wt}. Never read, write or run anything under /repo or /verif. Never use `git stash`. Python with all dependencies: /venv/bin/python (run with cwd={wt}). There is no network.

The test suite (about 15 s; 219 tests pass and 51 fail on the unmodified checkout because of the pinned pandas version - that is the baseline):
    cd {wt} && /venv/bin/python -m pytest -q -p no:cacheprovider --timeout=900 --continue-on-collection-errors -rA 2>&1 | grep ^PASSED | sort > /tmp/base_{pid}.txt
Running it rewrites tdda/constraints/testdata/accounts25k.csv; restore with `git -C {wt} --no-replace-objects checkout -- tdda/constraints/testdata` after each run.

This semantic property of tdda matters to users:

  Title: {p['title']}
  Statement: {p['statement']}
  Source files involved: {', '.join(p['anchors']['files'])}

YOUR TASK: write FOUR different, independent, realistic BEHAVIOUR-PRESERVING refactorings of the code this property depends on (the files above and the helpers they call). Each must leave the behaviour of tdda exactly the same for every input and option - the property above must still hold afterwards, and nothing observable may change. They should be the kind of clean-up a maintainer really does, and should touch the logic that implements the property, not just comments. Use a different technique for each, for example:
  - extract a helper function or method from a block (or inline one), moving code between functions;
  - restructure control flow: invert a condition and swap the arms, replace if/else by early return (or the reverse), turn an if/elif chain into a dictionary dispatch or a conditional expression (or the reverse), merge nested ifs;
  - replace a loop by a comprehension / any() / all() (or the reverse), or an accumulation by a different but equivalent accumulation;
  - rename locals, parameters' internal aliases, private helpers or private attributes consistently; reorder independent statements; split or merge assignments (tuple assignment, chained assignment);
  - change how a constant is expressed (tuple vs frozenset for membership, module constant vs literal, f-string vs % formatting, `x is not None` ordering in a conjunction, De Morgan rewrites);
  - introduce a local variable for a repeated sub-expression, or remove one.
Make each refactoring substantial enough to change the shape of the code (10-40 changed lines is typical), and be careful: it must be REALLY equivalent (same results, same exceptions, same side effects, same files written, same order of effects where observable). Do not "fix" anything, even if you see a bug. Only non-test source files under tdda/ may change.

For each refactoring: start from the clean tree (`git -C {wt} checkout -- tdda`), make the change, run the test suite and confirm the sorted PASSED list is identical to the baseline, spot-check equivalence yourself with a few ad-hoc calls if the code is not covered by tests, then save
  {wt}/REFAC/<n>/patch.diff   (`git -C {wt} diff -- tdda`, must contain only .py source changes)
  {wt}/REFAC/<n>/meta.json    ({{"property": "{pid}", "technique": "...", "summary": "what was restructured and where", "why_equivalent": "..."}})
for n = 1..4, then revert. Verify each patch applies to the clean tree with `git apply --check`. Leave the worktree clean apart from REFAC/, and remove /tmp/base_{pid}.txt.

Finish with a short report listing the four refactorings.""")
