#!/usr/bin/env python3
"""Write sa/vocabulary.json: the qualified names of every function in /repo's committed tree (HEAD) - the names the rules were
written against.  Names only; run again only when the rules have been re-confirmed against a new upstream tree."""
import json, os, subprocess, sys, tempfile
HERE = os.path.dirname(os.path.dirname(os.path.abspath(__file__)))
sys.path.insert(0, HERE)
out = os.path.join(HERE, 'sa', 'vocabulary.json')
if not os.path.exists(out):
    json.dump({'functions': []}, open(out, 'w'))
import sa.specialise as sp
sp._VOCAB = frozenset(['*'])
sp.normalise = lambda p: []
import sa.model as model
wt = tempfile.mkdtemp(prefix='vocab_', dir='/tmp'); os.rmdir(wt)
subprocess.check_call(['git', '-C', '/repo', 'worktree', 'add', '-q', '--detach', wt, 'HEAD'])
try:
    model_normalise = None
    import sa.specialise
    p = model.Program.load(wt)
    names = sorted(q for q, f in p.funcs.items() if '<lambda>' not in q)
    import ast
    consts = set()
    for m in p.modules.values():
        for b in m.tree.body:
            if isinstance(b, ast.Assign):
                consts |= {m.name + '.' + t.id for t in b.targets if isinstance(t, ast.Name)}
    for c in p.classes.values():
        for b in c.node.body:
            if isinstance(b, ast.Assign):
                consts |= {c.qn + '.' + t.id for t in b.targets if isinstance(t, ast.Name)}
    consts = sorted(consts)
finally:
    subprocess.call(['git', '-C', '/repo', 'worktree', 'remove', '--force', wt])
json.dump({'comment': 'qualified names of the functions of the tree the rules were confirmed on (tools/gen_vocabulary.py)',
           'commit': subprocess.check_output(['git', '-C', '/repo', 'rev-parse', 'HEAD'], text=True).strip(), 'functions': names, 'constants': consts},
          open(out, 'w'), indent=0)
print(len(names), 'functions', len(consts), 'constants')
