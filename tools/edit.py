#!/usr/bin/env python3
"""edit.py <file> : reads OLD\n====\nNEW from stdin, replaces exactly one occurrence."""
import sys
p = sys.argv[1]
old, new = sys.stdin.read().split('\n====\n')
new = new.rstrip('\n') if not old.endswith('\n') else new
s = open(p).read()
if old.endswith('\n') and not new.endswith('\n'):
    new += '\n'
assert s.count(old) == 1, 'occurrences: %d' % s.count(old)
open(p, 'w').write(s.replace(old, new))
print('edited', p)
