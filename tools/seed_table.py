#!/usr/bin/env python3
"""seed_table.py <suffix letters> <frozen results json> : markdown rows for a seeding round (frozen vs current outcome)."""
import json, re, sys
suf, frozen = sys.argv[1], sys.argv[2]
fr = json.load(open(frozen))
now = json.load(open('/verif/seeded/RESULTS.json'))
for k in sorted(now):
    if k[-1] not in suf:
        continue
    m = json.load(open('/verif/seeded/%s/meta.json' % k))
    s = (m.get('summary') or '').replace('\n', ' ')
    s = re.sub(r'^tdda/\S+?[:,]\s*', '', s)[:110].replace('|', '/')
    rep = now[k].get('reports') or ['']
    mm = re.search(r'violated: (\S+)', rep[0]) if rep and rep[0] else None
    print('| %s | %s | %s | %s | %s |' % (k, s, fr.get(k, {}).get('outcome', '-'), now[k]['outcome'], mm.group(1) if mm else '-'))
