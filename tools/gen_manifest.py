#!/venv/bin/python
"""Writes MANIFEST.json from the table below (kept valid at every commit)."""
import json
import os
import sys

HERE = os.path.dirname(os.path.dirname(os.path.abspath(__file__)))
sys.path.insert(0, HERE)
from tools.claims import CLAIMS, NOT_APPLICABLE   # noqa: E402

PY = '/venv/bin/python'

LEVEL_TAIL = (' Decides the listed structural obligations on every path / call chain / table row of the current source; '
              'they are necessary conditions of the property. It does not decide the run-time behaviour itself.')
NOTE = ('Trusted base: CPython 3.12 ast/symtable/compile (the compiler\'s LOAD_FAST_CHECK set is used as an oracle for '
        'definite assignment), the call-resolution rules of DESIGN.md E1 (user callbacks and opaque receivers are not followed), '
        'the frozen triage table sa/triage.py and indirect-call table in sa/model.py, and the semantics of pandas/sqlite/re/os '
        'primitives as named in each rule. No tdda code is imported or executed.')


def main():
    checks = []
    for pid in sorted(CLAIMS):
        c = CLAIMS[pid]
        checks.append({
            'property_id': pid,
            'quick_cmd': '%s check.py %s --tier quick' % (PY, pid),
            'thorough_cmd': '%s check.py %s --tier thorough' % (PY, pid),
            'evidence_file': 'evidence/%s.json' % pid,
            'replay_cmd_template': PY + ' check.py --replay {path}',
            'engine': 'sa',
            'level_claimed': {
                'category': 'other',
                'text': 'Partial, static: ' + c['text'] + LEVEL_TAIL,
                'design_ref': 'DESIGN.md section 3, ' + pid,
            },
            'level_note': NOTE + (' ' + c['note'] if c.get('note') else ''),
            'technique': c['technique'],
        })
    man = {
        'version': 1,
        'setup_cmd': PY + ' tools/setup_check.py',
        'hooks': {
            'guard': 'TDDA_TDDA_VERIF',
            'enable': 'none needed: static analysis reads the source; no instrumentation is compiled in',
            'baseline_off_cmd': 'cd /repo && /venv/bin/python -m pytest -ra -q -p no:cacheprovider --timeout=900 '
                                '--continue-on-collection-errors',
            'source_commits': [],
            'add_only': True,
        },
        'engines': [{
            'name': 'sa',
            'path': 'sa/',
            'serves_properties': sorted(CLAIMS),
            'kind_free_text': 'repository-specific static analysers over Python ast/symtable/code objects: resolved call graph '
                              'with self-class context, guard chains, path-sensitive worlds walker, effect/provenance summaries, '
                              'finite-domain abstract evaluation, regular-language inclusion on extracted constants',
        }],
        'checks': checks,
        'not_applicable': [{'property_id': k, 'reason': v} for k, v in sorted(NOT_APPLICABLE.items())],
        'notes': 'exit 0 = obligations hold (KNOWN-FINDING lines for recorded defects); exit 1 = VIOLATION; exit 2 = ANALYSIS-ERROR '
                 '(anchor vanished / shape not interpretable / instance floor / selftest) - never reported as a violation. '
                 'thorough = quick rules + mutant/refactor self-validation of those rules held in memory.',
    }
    with open(os.path.join(HERE, 'MANIFEST.json'), 'w') as f:
        json.dump(man, f, indent=1)
        f.write('\n')
    print('MANIFEST.json: %d checks, %d not applicable' % (len(checks), len(NOT_APPLICABLE)))


if __name__ == '__main__':
    main()
