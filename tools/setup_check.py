#!/venv/bin/python
"""MANIFEST.setup_cmd: nothing to build; verify the interpreter and that the analysers import."""
import os
import sys
sys.path.insert(0, os.path.dirname(os.path.dirname(os.path.abspath(__file__))))
assert sys.version_info[:2] == (3, 12), 'checks use the 3.12 compiler as an oracle'
from sa import model, flow, ief, report   # noqa
p = model.Program.load()
print('setup ok: python %s, %d modules, %d functions parsed' % (sys.version.split()[0], len(p.modules), len(p.funcs)))
