#!/usr/bin/env python3
"""show.py <file> <func-or-Class.func> ... : print function source without docstrings/comments-only lines."""
import ast, sys
src = open(sys.argv[1]).read()
tree = ast.parse(src)
lines = src.splitlines()
want = sys.argv[2:]
def emit(n, q):
    doc = None
    if n.body and isinstance(n.body[0], ast.Expr) and isinstance(n.body[0].value, ast.Constant) and isinstance(n.body[0].value.value, str):
        doc = n.body[0]
    skip = set(range(doc.lineno, doc.end_lineno + 1)) if doc else set()
    start = min([n.lineno] + [d.lineno for d in n.decorator_list])
    for i in range(start, n.end_lineno + 1):
        if i in skip: continue
        l = lines[i-1]
        if not l.strip() or l.strip().startswith('#'): continue
        print('%4d %s' % (i, l))
for n in ast.walk(tree):
    if isinstance(n, ast.ClassDef):
        for b in n.body:
            if isinstance(b, (ast.FunctionDef,)):
                q = n.name + '.' + b.name
                if any(w in (q, b.name) or (w.endswith('*') and q.startswith(w[:-1])) for w in want): emit(b, q)
for b in tree.body:
    if isinstance(b, ast.FunctionDef) and any(w == b.name or (w.endswith('*') and b.name.startswith(w[:-1])) for w in want): emit(b, b.name)
