#!/usr/bin/env python3
"""intake.py <agent worktree> : independently confirm each SEED/<x> of a seeding
agent against the CURRENT /repo HEAD in a fresh scratch worktree, and keep the
confirmed ones as /verif/seeded/<pid>-<x>/ (patch.diff, demo.py, meta.json)."""
import json, os, shutil, subprocess, sys, tempfile

def sh(cmd, cwd=None, timeout=1800):
    r = subprocess.run(cmd, shell=True, cwd=cwd, capture_output=True, text=True, timeout=timeout)
    return r.returncode, (r.stdout + r.stderr)

def suite(wt):
    base = json.load(open('/root/.vp/BASELINE.json'))
    x = tempfile.mktemp(suffix='.xml')
    sh("/venv/bin/python -m pytest -q -p no:cacheprovider --timeout=900 --continue-on-collection-errors --junitxml=%s" % x, cwd=wt)
    import xml.etree.ElementTree as ET
    passed = set()
    for tc in ET.parse(x).getroot().iter('testcase'):
        if not any(ch.tag in ('failure', 'error', 'skipped') for ch in tc):
            passed.add('%s::%s' % (tc.get('classname'), tc.get('name')))
    os.remove(x)
    return sorted(set(base['stable_pass']) - passed)

def main():
    src = sys.argv[1].rstrip('/')
    only = sys.argv[2:] 
    for x in sorted(os.listdir(os.path.join(src, 'SEED'))):
        if only and x not in only:
            continue
        d = os.path.join(src, 'SEED', x)
        if not os.path.isdir(d):
            continue
        meta = json.load(open(os.path.join(d, 'meta.json')))
        pid = meta['property']
        wt = tempfile.mkdtemp(prefix='intake_', dir='/tmp')
        os.rmdir(wt)
        sh('git -C /repo worktree add -q --detach %s HEAD' % wt)
        ran = []
        try:
            env = 'cd %s && PYTHONPATH=%s /venv/bin/python %s/demo.py' % (wt, wt, d)
            rc0, out0 = sh(env)
            ran.append('clean tree (repo HEAD): demo exit %d' % rc0)
            rc, out = sh('git apply %s/patch.diff' % d, cwd=wt)
            if rc:
                rc, out = sh('git apply -3 %s/patch.diff' % d, cwd=wt)
            if rc:
                print(pid, x, 'PATCH DOES NOT APPLY to HEAD:', out[:300]); continue
            tmpd = '/tmp/_intake_%d_%s.diff' % (os.getpid(), x)
            sh('git diff -- tdda > ' + tmpd, cwd=wt)
            rc1, out1 = sh(env)
            ran.append('patched tree: demo exit %d' % rc1)
            missing = suite(wt)
            ran.append('patched tree: pinned suite, %d of 218 stable tests missing' % len(missing))
            sh('git checkout -- . && git apply ' + tmpd + ' && git diff --stat', cwd=wt)
            ok = (rc0 == 0 and rc1 != 0 and not missing)
            print(pid, x, 'CONFIRMED' if ok else 'REJECTED', ran, missing[:3])
            if rc0 != 0:
                print(out0[-600:])
            if ok:
                shift = int(os.environ.get('SEED_ROUND', '1')) - 1
                dest = '/verif/seeded/%s-%s' % (pid, chr(ord(x) + 2 * shift))
                os.makedirs(dest, exist_ok=True)
                shutil.copy(tmpd, dest + '/patch.diff')
                shutil.copy(d + '/demo.py', dest + '/demo.py')
                meta2 = {'property': pid, 'round': int(os.environ.get('SEED_ROUND', '1')), 'summary': meta.get('summary'), 'needs': meta.get('needs'),
                         'agent_ran': meta.get('ran'),
                         'confirmed': ran, 'confirmed_against': sh('git -C /repo rev-parse --short HEAD')[1].strip(),
                         'demo_failure_tail': out1[-400:]}
                json.dump(meta2, open(dest + '/meta.json', 'w'), indent=1)
        finally:
            sh('git -C /repo worktree remove --force %s' % wt)
            try:
                os.remove(tmpd)
            except (OSError, NameError):
                pass
if __name__ == "__main__":
    main()
