#!/usr/bin/env python3
"""intake_refactor.py <agent worktree>: keep each REFAC/<n> whose patch applies to /repo HEAD and leaves the pinned
suite's stable set passing, as /verif/refactors/<pid>-<n>/ (patch.diff, meta.json)."""
import json, os, shutil, subprocess, sys, tempfile
sys.path.insert(0, os.path.dirname(os.path.abspath(__file__)))
from intake import sh, suite


def main():
    src = sys.argv[1].rstrip('/')
    for x in sorted(os.listdir(os.path.join(src, 'REFAC'))):
        d = os.path.join(src, 'REFAC', x)
        if not os.path.isdir(d) or not os.path.exists(d + '/patch.diff'):
            continue
        meta = json.load(open(d + '/meta.json'))
        pid = meta['property']
        wt = tempfile.mkdtemp(prefix='rintake_', dir='/tmp'); os.rmdir(wt)
        sh('git -C /repo worktree add -q --detach %s HEAD' % wt)
        try:
            rc, out = sh('git apply %s/patch.diff' % d, cwd=wt)
            if rc:
                print(pid, x, 'PATCH DOES NOT APPLY', out[:200]); continue
            rc, names = sh('git diff --name-only', cwd=wt)
            bad = [n for n in names.split() if not n.endswith('.py') or '/test' in n]
            missing = suite(wt)
            ok = not missing and not bad
            print(pid, x, 'KEPT' if ok else 'REJECTED', 'missing=%d' % len(missing), bad[:2], (meta.get('technique') or '')[:60])
            if ok:
                dest = '/verif/refactors/%s-%s' % (pid, x)
                os.makedirs(dest, exist_ok=True)
                sh('git checkout -- . ; git apply %s/patch.diff; git diff -- tdda > %s/patch.diff' % (d, dest), cwd=wt)
                meta['confirmed'] = 'patch applies to /repo HEAD; pinned suite: 0 of the stable tests missing'
                json.dump(meta, open(dest + '/meta.json', 'w'), indent=1)
        finally:
            sh('git -C /repo worktree remove --force %s' % wt)


main()
