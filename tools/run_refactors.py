#!/usr/bin/env python3
"""Run every property's quick check against every kept behaviour-preserving refactoring (refactors/<id>-<n>/patch.diff).

A refactoring leaves behaviour unchanged, so any VIOLATION is a false alarm to be corrected; an ANALYSIS-ERROR (exit 2)
means a rule could not interpret the new shape (fail-closed, acceptable but recorded).  Writes refactors/RESULTS.json."""
import json, os, subprocess, sys, tempfile
from concurrent.futures import ThreadPoolExecutor

ALL_PIDS = PIDS = ['C01', 'C02', 'C03', 'C04', 'C05', 'C06', 'C07', 'C08', 'C09', 'C10', 'C11', 'C12', 'C13', 'C14', 'C15', 'C16', 'C17', 'C19']


if os.environ.get('REFRUN_PIDS'):
    # only these checks are re-run; the verdicts of the others are kept from RESULTS.json
    PIDS = os.environ['REFRUN_PIDS'].split(',')
    _KEPT = json.load(open('/verif/refactors/RESULTS.json'))
else:
    _KEPT = {}


def sh(cmd, cwd=None):
    r = subprocess.run(cmd, shell=True, cwd=cwd, capture_output=True, text=True)
    return r.returncode, r.stdout + r.stderr


def one(name):
    d = '/verif/refactors/' + name
    wt = tempfile.mkdtemp(prefix='refrun_', dir='/tmp'); os.rmdir(wt)
    sh('git -C /repo worktree add -q --detach %s HEAD' % wt)
    try:
        rc, out = sh('git apply %s/patch.diff' % d, cwd=wt)
        if rc:
            rc, out = sh('git apply -3 %s/patch.diff' % d, cwd=wt)
        if rc:
            return name, {'outcome': 'patch-does-not-apply', 'detail': out[:200]}
        res = {k: v for k, v in _KEPT.get(name, {}).get('checks', {}).items() if k not in PIDS}
        for pid in PIDS:
            rc, out = sh('/venv/bin/python /verif/check.py %s --root %s --no-evidence' % (pid, wt), cwd='/verif')
            if rc == 1:
                res[pid] = ['VIOLATION'] + [l.strip()[:260] for l in out.splitlines() if l.startswith('  violated:')][:4]
            elif rc == 2:
                res[pid] = ['ANALYSIS-ERROR'] + [l.strip()[:260] for l in out.splitlines() if l.startswith('ANALYSIS-ERROR')][:3]
        return name, {'outcome': 'silent' if not res else ('false-alarm' if any(v[0] == 'VIOLATION' for v in res.values()) else 'analysis-error'),
                      'checks': res}
    finally:
        sh('git -C /repo worktree remove --force %s' % wt)


def main():
    names = sorted(n for n in os.listdir('/verif/refactors') if os.path.isdir('/verif/refactors/' + n))
    sel = sys.argv[1:]
    if sel:
        names = [n for n in names if any(n.startswith(s) for s in sel)]
    with ThreadPoolExecutor(12) as ex:
        res = dict(ex.map(one, names))
    outp = '/verif/refactors/RESULTS.json'
    prev = json.load(open(outp)) if os.path.exists(outp) and (sel or _KEPT) else {}
    prev.update(res)
    json.dump(prev, open(outp, 'w'), indent=1, sort_keys=True)
    for n in sorted(res):
        r = res[n]
        print('%-8s %-15s %s' % (n, r['outcome'], '; '.join('%s: %s' % (k, v[1][:150] if len(v) > 1 else v[0]) for k, v in sorted(r.get('checks', {}).items()))))
    c = {}
    for r in prev.values():
        c[r['outcome']] = c.get(r['outcome'], 0) + 1
    print(c)


main()
