#!/usr/bin/env python3
"""Run the registered quick checks against every kept seeded change.

Each patch is applied in a scratch worktree of /repo HEAD (never in /repo), the
property's check is run with --root, and the worktree is removed.  Writes
seeded/RESULTS.json: which checks catch which changes."""
import json, os, subprocess, sys, tempfile
from concurrent.futures import ThreadPoolExecutor

def sh(cmd, cwd=None):
    r = subprocess.run(cmd, shell=True, cwd=cwd, capture_output=True, text=True)
    return r.returncode, r.stdout + r.stderr

def one(name):
    d = '/verif/seeded/' + name
    meta = json.load(open(d + '/meta.json'))
    pid = meta['property']
    wt = tempfile.mkdtemp(prefix='seedrun_', dir='/tmp'); os.rmdir(wt)
    sh('git -C /repo worktree add -q --detach %s HEAD' % wt)
    try:
        rc, out = sh('git apply %s/patch.diff' % d, cwd=wt)
        if rc:
            rc, out = sh('git apply -3 %s/patch.diff' % d, cwd=wt)
        if rc:
            return name, {'property': pid, 'outcome': 'patch-does-not-apply', 'detail': out[:200]}
        res = {}
        pids = [pid] + [p for p in sys.argv[1:] if p.startswith('+')]
        rc, out = sh('/venv/bin/python %s/check.py %s --root %s --no-evidence' % (os.environ.get('VERIF_HOME', '/verif'), pid, wt), cwd=os.environ.get('VERIF_HOME', '/verif'))
        viol = [l for l in out.splitlines() if l.startswith('  violated:')]
        err = [l for l in out.splitlines() if l.startswith('ANALYSIS-ERROR')]
        return name, {'property': pid, 'exit': rc,
                      'outcome': 'caught' if rc == 1 else ('analysis-error' if rc == 2 else 'missed'),
                      'reports': [v.strip()[:300] for v in viol][:5] + err[:3], 'summary': (meta.get('summary') or '')[:300]}
    finally:
        sh('git -C /repo worktree remove --force %s' % wt)

def main():
    names = sorted(n for n in os.listdir('/verif/seeded') if os.path.isdir('/verif/seeded/' + n))
    sel = [a for a in sys.argv[1:] if not a.startswith('+')]
    if sel:
        names = [n for n in names if any(n.startswith(s) for s in sel)]
    suf = os.environ.get('SEED_SUFFIX')
    if suf:
        names = [n for n in names if n[-1] in suf]
    outp = os.environ.get('RESULTS_OUT', '/verif/seeded/RESULTS.json')
    with ThreadPoolExecutor(8) as ex:
        res = dict(ex.map(one, names))
    prev = {}
    if os.path.exists(outp) and (sel or suf):
        prev = json.load(open(outp))
    prev.update(res)
    json.dump(prev, open(outp, 'w'), indent=1, sort_keys=True)
    for n in sorted(res):
        r = res[n]
        print('%-8s %-15s %s' % (n, r['outcome'], (r.get('reports') or [''])[0][:160]))
    c = {}
    for r in prev.values():
        c[r['outcome']] = c.get(r['outcome'], 0) + 1
    print(c)
main()
