"""Which properties are claimed, with which rules (kept in step with sa/rules)."""

IEF = ('internal-error freedom (undefined names, locals read before assignment on a feasible if/else path, calls that '
       'cannot bind, iteration over a possibly-None result) of every function reachable from the entry points')

CLAIMS = {
    'C02': {'text': 'field-missing=>False and null=>True tests precede every statistic in all ten verifiers (GUARD); kind registries agree '
                    '(REG); every verdict counted exactly once and totals accumulated (COUNT); min/max families are mirror images '
                    '(MIRROR); decision tables equal the documented truth tables incl. operand roles (SEM); fuzz direction by sign '
                    'algebra, comparator shape, tolerance applied to the constraint value (FUZZ).',
            'technique': 'typestate walk over verifier CFGs, decision-table extraction vs frozen specification tables, token-level mirror comparison, sign algebra'},
    'C06': {'text': 'every detector path writes its flag column (MUSTFLAG) through the null-aware helper (NULLFLAG); per arm the detector '
                    'predicate is the verifier predicate (AGREE); stale output removed unconditionally before verification and writer only '
                    'under failures > 0 (OUTFILE); stores into the input frame only under detect_in_place (INPLACE).',
            'technique': 'typestate must-pass-through walk, decision-table agreement between sibling implementations, guard-chain queries'},
    'C05': {'text': IEF + ' assertDataFramesEqual/assertDataFrameCorrect/assertOnDiskDataFrameCorrect/check_dataframe.',
            'technique': 'call-graph reachability + definite-assignment walk + arity check (AST)'},
    'C08': {'text': IEF + ' discover_db_table/verify_db_table.',
            'technique': 'call-graph reachability + definite-assignment walk + arity check (AST)'},
    'C10': {'text': 'every effect on a reference path is under the true arm of _should_regenerate(own kind) on every call chain '
                    '(GUARD, KINDFWD); normal-mode effects write only under tmp_dir (NOWRITE); only set_regeneration stores into the '
                    'table and only command-line parsers call it (WHOSETS); flag spellings and their wiring (FLAGS); writer/reader '
                    'mode agreement per kind (RW); ' + IEF + ' (the assertion methods).',
            'technique': 'interprocedural effect summaries with path provenance and guard chains; guard-chain queries; registries'},
    'C11': {'text': IEF + ' gentest()/gentest_wrapper().',
            'technique': 'call-graph reachability + definite-assignment walk + arity check (AST)'},
    'C15': {'text': 'artefacts are written only under tmp_dir with relative-safe names (TMPDIR), only under a difference predicate or '
                    'a missing-file handler (ONLYFAIL); actual-side and expected-side bookkeeping are exact mirrors (MIRROR); '
                    'suggested commands name caller paths or files written (CMDFILES).',
            'technique': 'effect summaries with provenance + def-use closure of guards + near-mirror clone comparison'},
    'C17': {'text': IEF + ' the three Pandas front-end methods (discover/verify/detect).',
            'technique': 'call-graph reachability + definite-assignment walk + arity check (AST)'},
    'C01': {
        'text': 'internal-error freedom (undefined names, unbound locals, unbindable calls, None iteration) of every '
                'function reachable from discover_df/verify_df/detect_df/to_json/load.',
        'technique': 'call-graph reachability + path-sensitive definite-assignment walk (AST), compiler oracle',
    },
}

_PENDING = 'rules for this property are not built yet in this commit (see DESIGN.md section 9 build order)'

NOT_APPLICABLE = {
    'C18': 'accounting identities over run-time match counts; no clause is visible in the shape of the code '
           '(DESIGN.md section 3, C18)',
}
for _i in range(1, 20):
    _p = 'C%02d' % _i
    if _p not in CLAIMS and _p not in NOT_APPLICABLE:
        NOT_APPLICABLE[_p] = _PENDING
