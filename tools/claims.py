"""Which properties are claimed, with which rules (kept in step with sa/rules)."""

CLAIMS = {
    'C01': {
        'text': 'internal-error freedom (undefined names, unbound locals, unbindable calls, None iteration) of every '
                'function reachable from discover_df/verify_df/detect_df/to_json/load.',
        'technique': 'call-graph reachability + path-sensitive definite-assignment walk (AST), compiler oracle',
    },
}

_PENDING = 'rules for this property are not built yet in this commit (see DESIGN.md section 9 build order)'

NOT_APPLICABLE = {
    'C18': 'accounting identities over run-time match counts; no clause is visible in the shape of the code '
           '(DESIGN.md section 3, C18)',
}
for _i in range(1, 20):
    _p = 'C%02d' % _i
    if _p not in CLAIMS and _p not in NOT_APPLICABLE:
        NOT_APPLICABLE[_p] = _PENDING
