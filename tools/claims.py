"""Which properties are claimed, with which rules (kept in step with sa/rules)."""

IEF = ('internal-error freedom (undefined names, locals read before assignment on a feasible if/else path, calls that '
       'cannot bind, iteration over a possibly-None result) of every function reachable from the entry points')

CLAIMS = {
    'C02': {'text': 'field-missing=>False and null=>True tests precede every statistic in all ten verifiers (GUARD); kind registries agree '
                    '(REG); every verdict counted exactly once and totals accumulated (COUNT); min/max families are mirror images '
                    '(MIRROR); decision tables equal the documented truth tables incl. operand roles (SEM); fuzz direction by sign '
                    'algebra, comparator shape, tolerance applied to the constraint value (FUZZ); each rex of a list compiled on its own; no local carried from one dictionary key to another while constraints are loaded (KEYORDER).',
            'technique': 'typestate walk over verifier CFGs, decision-table extraction vs frozen specification tables, token-level mirror comparison, sign algebra'},
    'C06': {'text': 'every detector path writes its flag column (MUSTFLAG) through the null-aware helper (NULLFLAG); per arm the detector '
                    'predicate is the verifier predicate (AGREE); stale output removed unconditionally before verification and writer only '
                    'under failures > 0 (OUTFILE); stores into the input frame only under detect_in_place (INPLACE); rows numbered before filtering (ROWNUM); every flag-column name built is recognised by the output stage, for every kind (VERNAME); detect_df sets up its verifier as verify_df does and forwarded options are named further down (SAMESETUP); type repair on every path for dictionary and path alike (SAMEPREP); internal-error freedom of detect_df.',
            'technique': 'typestate must-pass-through walk, decision-table agreement between sibling implementations, guard-chain queries'},
    'C03': {'text': 'the sampling loop is never left with stale results (LOOP); every character reaching the fine classifier gets a class '
                    'whose regex contains it, over all code points and extra-letter configurations (CLASS); output-dialect classes contain '
                    'the internal ones for Python-interpreted dialects (DIALECT); escape discipline (ESC); escaped_bracket denotes exactly '
                    'its input set on all special-character combinations (BRACKET); plusify only widens (WIDEN); stdlib re as the engine (ENGINE); both category sets built together (CATSYNC); sampling caps never limit which characters and run patterns are seen, the cap counter counts distinct strings (EVIDENCE); clean() drops exactly what the options say, over options x representative strings (DISCARD); whitespace padding depends on the strip counter alone (WSPAD); internal-error freedom of extract/pdextract.',
            'technique': 'typestate walk, character-set algebra over all Unicode code points, abstract interpretation of the pure string helpers on enumerated inputs + regex parse-tree inspection'},
    'C13': {'text': 'every stored expression comes from vrle2re/rle2re whose returns pass the ^...$ wrapper (ANCHOR); the tag flag is only '
                    'forwarded or selects group(X) vs X (TAG); quantifier rendering parses and admits min..max (QUANT); escape and '
                    'bracket construction (ESC, BRACKET); rendered expressions are never ranked as text on the extraction path (TAGFREE); examples are observed values, not declared categorical levels (OBSERVED); padding and strip counter (WSPAD, STRIPCOUNT); both category sets built together (CATSYNC).',
            'technique': 'def-use/shape checks on the AST, abstract interpretation of fragment2re/escaped_bracket on enumerated inputs + regex parse-tree inspection'},
    'C14': {'text': 'every random.* call lies inside a seeded, restored region on every call chain from the entry points (PRNG); PRNGState is '
                    'followed at once by try/finally restore and seeds on `is not None` (RESTORE); set-to-sequence conversions are sorted (ORDER); memo key complete (MEMO); no entry point changes a container it was handed (ARGMUT); caps never limit what is seen (EVIDENCE); Series examples are observed values (OBSERVED); every module-level memo is keyed by all parameters its value depends on (MEMO); the seed given by the caller reaches PRNGState unconditionally (SEEDFWD).',
            'technique': 'reverse call-graph chain enumeration with region membership, statement-adjacency check, def-use, interprocedural may-alias walk for in-place mutation'},
    'C04': {'text': 'actual and expected sides are transformed identically (SYM) and split into lines by the same primitive (SPLIT); the '
                    'failure count reaches the assertion (PROP); no handler swallows a failure (EXC); the permutation allowance is bounded '
                    'by max_permutation_cases (PERM); removal is decided on un-normalised lines (RAWREMOVE); no state kept on the comparison object between checks (STATELESS, NOCACHE); names and extensions compared whole (WHOLESTR).',
            'technique': 'near-mirror clone comparison under role renaming, def-use closures, guard-chain queries'},
    'C05': {'text': 'actual and reference frames are transformed identically (SYM); everything reported also fails the check (RFAIL); the '
                    'failure count reaches the assertion (PROP); no option leaks between calls through instance state (STATE); the order '
                    'check iterates each frame\'s own columns (ORDER); no memoised frames (NOCACHE); wrappers forward every shared option under its own name (FORWARD); categoricals converted before any sort (CATFIRST); ' + IEF + ' the DataFrame assertions and check_dataframe.',
            'technique': 'near-mirror clone comparison, control+data dependence closure of the returned failure count, call-graph reachability + definite-assignment walk'},
    'C07': {'text': 'discovery thresholds admit exactly the documented sets (THRESH); the discovered sign class is the strongest that holds '
                    'over the six orderings of (min, max, 0) (STRONG); min is computed with min/MIN and max with max/MAX everywhere, no '
                    'query truncates (AGG); nothing but the type is emitted for absent data (ABSENT); lengths counted by len() in characters (LENCHARS); no process-wide memo in the handlers (NOSHARED); statistics from observed values, never declared categorical levels (OBSERVED); the dtype-name decision chain classes every integer/float/bool/datetime dtype name (DTYPES); numbers never used as bare conditions (ZERO).',
            'technique': 'guard-chain queries, finite-domain (sign) abstract evaluation of the decision chains, call-graph closure over SQL literals'},
    'C08': {'text': 'SQL quoting discipline per template slot on the SQLite path and delimiter doubling in the quoting helper (SQLQ); '
                    'empty-join guard (EMPTYJOIN); closed-table lookups (TOTAL); unguarded parsing of stored text (EXC); REGEXP callback '
                    'flags (REXFLAGS); SQL aggregates (AGG); no process-wide memo (NOSHARED); no transaction control or data-changing SQL reachable from the entry points (READONLY); statistics never tested for truthiness (ZERO); ' + IEF + ' discover_db_table/verify_db_table.',
            'technique': 'template-slot taint classification (def-use), guard chains, call-graph reachability, definite-assignment walk'},
    'C09': {'text': 'writer keys are constructor parameters and tables share one tuple (KEYS); every emitted value passes the date stringifier '
                    '(DATEPATH); writer date language is included in the reader regexes, exact integer conversion (DATELANG); date-only text '
                    'keeps its type (DATETYPE); null-valued constraints load (NULLG); unknown kinds are inert, stored values tested against '
                    'None only (UNKNOWN); all entry points funnel into one loader (ENTRY); to_json shape and newline-only line splitting (STRIP); constructor defaults never assigned after load() (PRESET); no key-order dependence in the loader (KEYORDER); every constraint constructor returns for a null value (NULLG, by abstract evaluation); no cached parse of a .tdda file (NOCACHE); path and dictionary forms prepared alike (SAMEPREP).',
            'technique': 'registry/key-set comparison, return-expression shape checks, guard chains, regular-language inclusion on extracted regex constants'},
    'C10': {'text': 'every effect on a reference path is under the true arm of _should_regenerate(own kind) on every call chain '
                    '(GUARD, KINDFWD: own kind forwarded and never rewritten before use); normal-mode effects write only under tmp_dir (NOWRITE); only set_regeneration stores into the '
                    'table and only command-line parsers call it (WHOSETS); flag spellings and their wiring (FLAGS); writer/reader '
                    'mode agreement per kind (RW); same line splitting on both sides (SPLIT); reference written verbatim (VERBATIM); ' + IEF + ' (the assertion methods).',
            'technique': 'interprocedural effect summaries with path provenance and guard chains; guard-chain queries; registries'},
    'C11': {'text': 'date construction from parsed numbers is guarded (EXC); every slot of the script template gets text of the class its '
                    'Python context needs (TEMPLATE); every write/delete stays under the reference directory or is the script (EFFECTS); '
                    'one test per file on every path (MUSTEMIT); emitted path expressions denote the original path (JOINREPR); dynamic '
                    'attribute names exist (ATTRS); snapshot timestamps of one kind (SNAPSHOT); a fallback encoding is recorded before the lines are returned (ENCODING); wildcard patterns are removed from the reference files on every path (GLOBS); captured output split with splitlines (SPLIT); ' + IEF + ' gentest()/gentest_wrapper().',
            'technique': 'template-slot context classification, effect summaries with provenance, typestate walk, abstract interpretation of as_join_repr on a path grid'},
    'C12': {'text': 'one assertion per stream/file, each stream test exactly under its flag (ONEASSERT); actual and reference arguments come '
                    'from different sources (ROLES); the instantiated header runs the command once after removing old outputs and its tests '
                    'read that result (ORDER); exit code and files of run 1 (EXITCODE); unique test names (UNIQUE); strict decoding (STRICT); '
                    'exclusions only from run differences and machine-specific strings (EXCLPROV); cleaned files = tested files (CLEANSET); computed environment facts are the ones read (DEADATTR); names and machine-specific strings handled whole (WHOLESTR).',
            'technique': 'typestate walk, straight-line def-use closures, parsing the instantiated script template with ast'},
    'C15': {'text': 'artefacts are written only under tmp_dir with relative-safe names (TMPDIR), only under a difference predicate or '
                    'a missing-file handler (ONLYFAIL); actual-side and expected-side bookkeeping are exact mirrors (MIRROR); '
                    'suggested commands name caller paths or files written (CMDFILES); the raw artefact is written from the caller\'s own lines (RAWLINES); a configured tmp_dir survives every outcome of the constructor\'s other tests (TMPCFG); empty content is content (EMPTY); one guide for both post-processed files (SAMEGUIDE).',
            'technique': 'effect summaries with provenance + def-use closure of guards + near-mirror clone comparison'},
    'C16': {'text': 'the date-format translation is correct on every documented field alone, every ordered pair with every separator and the '
                    'documented compact forms (CHAIN); dialect keys are W3C keys stored under their own names, numeric options not '
                    'defaulted with `or` (DKEYS); type tables closed and equal to the documented mapping, no date type reaches dtype (TYPES); metadata never memoised (NOCACHE); RE_ISO8601 accepts only ISO 8601 layouts (ISOLANG, language inclusion); provenance values only fill keys the dialect lacks (EXPLICIT); declared columns protected from int-upgrading whatever the options (DECLARED); titles kept as given (TITLES); per-column contributions accumulated (ACCUM).',
            'technique': 'abstract interpretation of the translation function on ~1100 composed formats, registry/key-set comparison'},
    'C17': {'text': 'every command-line key is a named parameter on its forwarding chain (FLAGS); front ends reach load_df and the library '
                    'function, no second implementation (SAMEAPI); error arms exit non-zero before any effect (EXIT); looked-up values are '
                    'used (DEFUSE); rows numbered before filtering (ROWNUM); front ends write nothing themselves (NOWRITE); date writer/reader agreement (DATELANG); input-file extension tests on the lower-cased extension (EXTCASE); options tested with `is None` have no parser default (DEFAULTS); the front end takes every documented argument order (APPLICABLE); calculator statistics from observed values (OBSERVED); ' + IEF +
                    ' the three Pandas front-end methods.',
            'technique': 'registry comparison across **kwargs chains, statement-order and guard-chain checks, path-aware def-use, call-graph reachability'},
    'C19': {'text': 'write-back index matches the slice offset (ARGVIDX); tag attribute agrees between decorator, loader and pytest filter, all '
                    'loaders filter, inheritance-aware lookup (LOADER); boolean tables of list mode x nested suite and of the loader choice over (tagged, check) (CHECKMODE); the pytest filter over (--tagged, --istagged, item tagged) (PYTABLE); flag literals, '
                    'monotone flags and their wiring (FLAGS).',
            'technique': 'AST pattern with embedded positive example, registry comparison, boolean-table evaluation, guard-chain queries'},
    'C01': {
        'text': 'each emitted constraint comes from the statistic its verifier reads and the default arm holds at equality; sign closure '
                'over the six orderings (CLOSE, incl. the exact disjunct of the fuzzy comparators); the guarantees of rexpy for rex constraints (REX-*: the C03 rules); one cache key / one classifier / one flag set on both sides (SHARED); no store into '
                'the verified frame from a verifier (CACHE); date writer language is included in the reader regexes, group counts, '
                'integer-only conversion (DATELANG); the .tdda text is split on newline only (STRIP); statistics from observed values only (OBSERVED); ' + IEF + ' discover_df/verify_df/detect_df/to_json/load.',
        'technique': 'def-use closures between sibling implementations, finite-domain evaluation, regular-language inclusion on extracted regex constants, definite-assignment walk',
    },
}

_PENDING = 'rules for this property are not built yet in this commit (see DESIGN.md section 9 build order)'

NOT_APPLICABLE = {
    'C18': 'accounting identities over run-time match counts; no clause is visible in the shape of the code '
           '(DESIGN.md section 3, C18)',
}
for _i in range(1, 20):
    _p = 'C%02d' % _i
    if _p not in CLAIMS and _p not in NOT_APPLICABLE:
        NOT_APPLICABLE[_p] = _PENDING


# Rules re-based on evaluation of the function itself (DESIGN section 12): added to the claims above.
_EVAL = 'evaluation of the named functions by the checker\'s own source interpreter (sa/pyeval.py; no tdda code imported or run) over the grid of inputs the rule states, with stand-ins for everything outside the repository'
EXTRA = {
    'C01': ('What discovery emits, verification accepts: discover_field_constraints and every verifier evaluated with the same stand-in statistics over the column-summary grid (LOOP); fuzz helpers and comparators on a grid reaching integers beyond 2**53 (CLOSE); get_date on 180 strings written by str() of dates (DATELANG); to_json on dictionaries holding every Unicode line separator (STRIP).', _EVAL),
    'C02': ('Every base verifier returns the documented verdict on a grid of (constraint value, statistic) pairs on both sides of every boundary, with and without a tolerance (VERDICT).', _EVAL),
    'C03': ('fine_class is decided per class of characters its own tests cannot tell apart, evaluated on representatives (CLASS, any control flow).', _EVAL),
    'C04': ('check_strings agrees with an independent statement of the comparison rule on 29 (actual, reference) pairs - identical text and its near misses - under every option combination (ORACLE); the entry points cut the same content into the same lines for every line terminator (SPLIT, on an in-memory file system with universal newlines).', _EVAL),
    'C05': ('RFAIL enumerates the paths of check_dataframe with the flags it sets followed exactly.', 'path enumeration over the statement tree with a two-valued flag environment'),
    'C09': ('The loader itself (initialize_from_dict with the real constructors), to_dict_value of every constraint class, to_json and strip_lines are evaluated on sample dictionaries (UNKNOWN, DATEPATH, STRIP).', _EVAL),
    'C10': ('Both command-line front ends are evaluated on argument lists / a stand-in pytest request (FLAGS); the reference writers on an in-memory file system (VERBATIM).', _EVAL),
    'C11': ('write_script evaluated on 20 generator states holding awkward text writes exactly the script, which parses with docstring, class and command intact (SCRIPT); every option of tdda gentest reaches gentest() under a parameter it has (FLAGKW); quote_raw and the emitted encodings evaluated.', _EVAL),
    'C12': ('The script write_script produces holds exactly one test per checked stream and reference file plus exit-status and exception tests, each one assertion of the right kind on the command\'s output against the stored reference, with only the generator\'s exclusions (SCRIPT); the diff classification of generate_exclusions_for_file evaluated with stand-in differences (EXCLPROV).', _EVAL),
    'C13': ('The anchoring wrapper and the group-or-not wrappers are evaluated (ANCHOR, TAG).', _EVAL),
    'C14': ('PRNGState evaluated with a recording random module: saves, seeds (0 included) and restores exactly when a seed is given, also as a context manager (RESTORE).', _EVAL),
    'C15': ('The string / text-file / binary-file comparisons evaluated on an in-memory file system: nothing written on a pass, only under the temporary directory on a failure, every file named in a comparison command exists, the raw file holds the actual content, the post-processed pair differs exactly on the unexcused lines, exact binary offset and lengths also beyond 64 KiB (ARTEFACTS).', _EVAL),
    'C16': ('process_dialect (one key at a time, explicit zeros and false), get_fields_metadata (titles) and get_dialect (explicit values versus dc:replaces) are evaluated (DKEYS, TITLES, EXPLICIT).', _EVAL),
    'C17': ('save_df evaluated on sample paths: listed formats written, every other spelling refused (EXTCASE).', _EVAL),
    'C19': ('The tagged loader is evaluated on stand-in suites (list mode x item kind, nested suites) and the pytest option table with a recording parser (CHECKMODE, FLAGS).', _EVAL),
    'C08': ('quoted() evaluated per dialect on names holding every delimiter (SQLQ).', _EVAL),
}
EXTRA2 = {
    'C02': 'Verdict statistics come from the values present, never from declared categorical levels (OBSERVED).',
    'C03': 'extract() itself evaluated end to end on a corpus of example sets and options, also with the smallest sampling sizes and variable-length fragments: every example is matched in full by a returned expression, judged by Python re (EXTRACT).',
    'C05': 'types_match evaluated on 21 dtype names x 4 levels: name equality at the default and strict levels, no level equates numbers, dates and declared text (TYPELEVEL); row counts are taken after the condition filter and the sort (ROWSAFTER).',
    'C08': 'The database discoverer and verifier are the shared base classes: the discovery grid, the discover->verify closed loop and the .tdda text rules apply (DISCOVERY, LOOP, STRIP).',
    'C11': 'copy_reference_files evaluated over three runs with colliding names records the run-1 copy for the generated test (REFMAP).',
    'C12': 'The string-against-file comparison keeps every character of a line (SPLIT), so a change that is only trailing blanks still fails the generated test.',
    'C13': 'Every expression extract() returns on the corpus compiles, is anchored (final $ not an escaped literal), matches an example, and tagging only adds parentheses, also for the grep and portable dialects (EXTRACT).',
    'C14': 'extract() returns the same list for reversed, rotated and dictionary input, with and without a seed and with sampling in force, and restores the global generator (EXTRACT); module-level entry points hand their seed on (SEEDFWD).',
    'C17': 'The detection output file left on disk is the library\'s decision (OUTFILE, shared with C06).',
    'C19': 'The tagged loader only narrows what unittest selected (-k, method prefix) and keeps no class-level memory between loaders (LOADER, NOSHARED).',
}
EXTRA3 = {
    'C12': 'exec_command evaluated with a stand-in subprocess on three runs (exit 3, cannot start, not UTF-8): one start of the command, the five values in the order setUpClass unpacks them, strict decoding (ORDER, STRICT).',
    'C16': 'CSVWMetadata.read evaluated: metadata addressed by bare name, relative or absolute path or a dictionary locates the same CSV file (LOCATE).',
    'C17': 'Verification.__str__ evaluated for every report option: the counts printed by the command are the counts of the result (REPORT).',
}
EXTRA4 = {
    'C01': 'The rex hooks of both calculators, evaluated, return expressions matching every value handed in, the empty string included (REXHOOK); an in-memory constraints dictionary is left as it was by the loader (NOMUTATE).',
    'C07': 'The distinct values a database column is described by are its distinct non-null values, empty strings and zeros included (DISTINCT).',
    'C08': 'The database rex hook matches every value handed in (REXHOOK); a text extended by += is never used as a % template (SQLQ).',
    'C09': 'A .tdda file and the dictionary it holds load alike, also for fields named like comments (SAMELOAD); the loader does not modify the dictionary it is given (NOMUTATE); the kind table, evaluated, holds the standard kinds only (KEYS).',
    'C11': 'Script names that differ map to different reference sub-directories (REFDIR).',
    'C12': 'Path expressions written into the script denote the files the command wrote (JOINREPR); the binary comparison fails for any difference, also in length only at a block boundary (BINARY).',
    'C15': 'Class-level defaults (tmp_dir) are stored on the class they are set through (DEFAULTS).',
    'C16': 'Date formats in CSVW notation are translated for every spelling of the date types (DATEFMT); in a table group data and schema come from the same table (TABLEGROUP).',
    'C17': 'The default comparators accept the bound itself, also for integers beyond 2**53 (ROUNDTRIP).',
}
EXTRA5 = {
    'C11': 'Every line naming the host, address, working directory, home directory, user or gentest\'s temporary directory - in any of six positions on the line - is flagged with that kind and no plain line is (SPECIFICS); the encoding guess is made from the whole file (ENCODING).',
    'C05': 'A value fetched from a filtered column by an integer is fetched by position (POSLOOKUP: the selection is renumbered first, or .iloc).',
    'C06': 'Row masks and flag columns meet the records by the same labels: no re-indexing between a mask and its use, no Series built without index= (ALIGNED).',
    'C15': 'Several pairs compared through one message object (check_files): each artefact holds lines of its own pair only (ARTEFACTS).',
    'C19': 'The pytest listing names a tagged method\'s class once (PYTABLE).',
}
EXTRA6 = {
    'C01': 'The verifiers return the documented verdict when the date statistic arrives in the backend\'s own form (VERDICT, shared with C02).',
    'C02': 'Verifying leaves the constraint lists as given (KEEPS); the tabular form never reads the report option (FRAMEALL); no calc_* statistic is taken with a tolerance (EXACTSTAT).',
    'C04': 'A final line of blanks is a line (ORACLE); both files of a pair are opened with one encoding (SAMEENC).',
    'C05': 'Whether a reference is rewritten follows the flag of its kind, False included (KINDFLAG).',
    'C06': 'detected() returns the detection frame whenever there is one (DETECTED); the detection frame is built on a copy of the input index (INPLACE).',
    'C07': 'Null counts are COUNT queries on every path (COUNTED); date bounds are written with every digit (WRITTEN).',
    'C08': 'The base verifiers fed with SQL statistics return the documented verdicts (VERDICT).',
    'C09': 'A constraint set that was verified with still holds what it was loaded with (KEEPS).',
    'C10': 'Regeneration follows the flag of the kind (KINDFLAG); actual and reference are decoded alike, so a regenerated reference passes (SAMEENC).',
    'C11': 'Directories are created only where none exists (MKDIRSAFE).',
    'C12': 'File kinds do not depend on the capitalisation of the extension (FILEKIND).',
    'C14': 'Size keeps every parameter it is given, False and 0 included (SIZE); merged variable-length fragments do not depend on example order (EXTRACT).',
    'C15': 'A second failure under the same names leaves nothing of a longer first one (ARTEFACTS, history); blanks excused by strip options do not show in the post-processed pair.',
    'C16': 'A CSV file with a dotted name is read with its own metadata (OWNMETA).',
    'C17': 'Without a constraints argument the .tdda file next to the data is used (DEFAULTTDDA); row numbers are positional (ALIGNED).',
    'C19': 'Same-named classes of different modules are each listed (PYTABLE).',
}
for _k, _t in EXTRA4.items():
    CLAIMS[_k]['text'] = CLAIMS[_k]['text'].rstrip() + ' ' + _t
for _k, _t in EXTRA6.items():
    CLAIMS[_k]['text'] = CLAIMS[_k]['text'].rstrip() + ' ' + _t
for _k, _t in EXTRA5.items():
    CLAIMS[_k]['text'] = CLAIMS[_k]['text'].rstrip() + ' ' + _t
_SPEC = ('source-to-source specialisation before the rules run: helpers that are new with respect to the recorded function names '
         'are read in place at their call sites, wrapper delegation / operator.* / lambdas / constant tables folded (sa/specialise.py)')
for _k, _t in EXTRA3.items():
    CLAIMS[_k]['text'] = CLAIMS[_k]['text'].rstrip() + ' ' + _t
for _k in CLAIMS:
    if _SPEC not in CLAIMS[_k]['technique']:
        CLAIMS[_k]['technique'] = CLAIMS[_k]['technique'] + '; ' + _SPEC
for _k, _t in EXTRA2.items():
    CLAIMS[_k]['text'] = CLAIMS[_k]['text'].rstrip() + ' ' + _t
    if _EVAL not in CLAIMS[_k]['technique']:
        CLAIMS[_k]['technique'] = CLAIMS[_k]['technique'] + '; ' + _EVAL
for _k, (_t, _q) in EXTRA.items():
    CLAIMS[_k]['text'] = CLAIMS[_k]['text'].rstrip() + ' ' + _t
    if _q not in CLAIMS[_k]['technique']:
        CLAIMS[_k]['technique'] = CLAIMS[_k]['technique'] + '; ' + _q
