#!/usr/bin/env python3
"""Run the pinned suite of /repo and compare with BASELINE.json's stable_pass set."""
import json, subprocess, sys, tempfile, os
import xml.etree.ElementTree as ET
base = json.load(open('/root/.vp/BASELINE.json'))
tmp = tempfile.mktemp(suffix='.xml', dir='/dev/shm' if os.path.isdir('/dev/shm') else None)
cmd = base['cmd'].replace('<file>', tmp)
r = subprocess.run(cmd, shell=True, capture_output=True, text=True)
passed = set()
for tc in ET.parse(tmp).getroot().iter('testcase'):
    if not any(ch.tag in ('failure', 'error', 'skipped') for ch in tc):
        passed.add('%s::%s' % (tc.get('classname'), tc.get('name')))
os.remove(tmp)
want = set(base['stable_pass'])
missing = sorted(want - passed)
print('passed=%d stable=%d missing=%d new=%d' % (len(passed), len(want), len(missing), len(passed - want)))
for m in missing[:20]:
    print('  MISSING', m)
sys.exit(1 if missing else 0)
