#!/usr/bin/env python3
"""Prints the prompt given to a seeding sub-agent for one property (property text only, nothing from /verif)."""
import json, sys
pid = sys.argv[1]
wt = sys.argv[2]
for l in open('/verif/properties.jsonl'):
    p = json.loads(l)
    if p['id'] == pid:
        break
print(f"""You are helping evaluate how well a verification effort can detect subtle regressions in the open-source Python library tdda (test-driven data analysis: reference-test assertions, pandas/DB constraint discovery and verification, regex inference "rexpy", and test generation "gentest").

You have your own scratch git worktree of the library at {wt} (a detached checkout). Work ONLY inside {wt}. Never read, write or run anything under /repo or /verif. Python with all dependencies: /venv/bin/python (run things with cwd={wt} so that `import tdda` picks up the worktree; e.g. `cd {wt} && /venv/bin/python demo.py`). There is no network.

The existing test suite is run like this (takes ~15 s; 218 tests pass and 52 fail on the unmodified checkout because of the pinned pandas version - those 52 failures are expected and are the baseline):
    cd {wt} && /venv/bin/python -m pytest -q -p no:cacheprovider --timeout=900 --continue-on-collection-errors 2>&1 | tail -5
Before changing anything, run it once and save the list of passing tests (e.g. with `-rA` or `--junitxml`), so you can confirm later that exactly the same tests still pass.

Here is a semantic property of tdda that users rely on:

  Title: {p['title']}
  Statement: {p['statement']}
  Quantified over: {p['quantifier']['text']}
  Source files involved: {', '.join(p['anchors']['files'])}

YOUR TASK: produce TWO different, independent, realistic changes to the tdda source (each the kind of slip a maintainer could plausibly make in a refactor, optimisation or bug fix - not sabotage-looking code, no comments pointing at it) such that each change, applied on its own to the clean checkout:
  1. still imports/compiles, and the existing test suite gives exactly the same set of passing tests as before (all 218 still pass);
  2. BREAKS the property above for some input / configuration / history;
  3. needs something specific to manifest - e.g. an unusual input, a particular option combination, a multi-step sequence of operations, a fault at a particular point, or two cooperating code sites that each look fine alone - rather than something ordinary use would expose at once;
  4. comes with a small demonstration program (plain Python script that exits non-zero / raises AssertionError when the property is violated) which FAILS with the change applied and PASSES on the clean checkout. The demonstration must test the property as stated (observable behaviour), not internal details.
The two changes should break the property through different mechanisms (different functions or different clauses of the property), and should only modify non-test source files under tdda/.

Deliverables - create these files (and nothing else outside {wt}):
  {wt}/SEED/a/patch.diff   (output of `git diff` for change A, relative to the clean checkout, applicable with `git apply`)
  {wt}/SEED/a/demo.py      (demonstration for A; run as `cd <checkout> && /venv/bin/python SEED/a/demo.py` or from any cwd with PYTHONPATH=<checkout>)
  {wt}/SEED/a/meta.json    ({{"property": "{pid}", "summary": "...what was changed and where...", "needs": "...what it needs in order to manifest...", "ran": ["commands you ran and their outcomes"]}})
  and the same three files under {wt}/SEED/b/ for change B.
Make the demo scripts import tdda from the current working directory / PYTHONPATH (do not hard-code {wt} in sys.path), and make them self-contained (create any temp files under tempfile.mkdtemp()).

Procedure you must follow for each change: start from the clean tree (`git -C {wt} checkout -- tdda`), make the change, run the full test suite and compare with the baseline pass list, run the demo (must fail), save `git -C {wt} diff -- tdda > SEED/x/patch.diff`, revert (`git -C {wt} checkout -- tdda`), run the demo again (must pass), then verify `git -C {wt} apply --check SEED/x/patch.diff` works on the clean tree. Leave the worktree clean (only the SEED directory added) when you finish.

Finish with a short report: for each change, one paragraph on what it is, why tests do not notice, and what triggers it.""")
