#!/bin/bash
# run the pinned suite, then commit only the edited .py sources with message $MSG
set -e
cd /repo
python3 /verif/tools/run_suite.py
git add -- $(git diff --name-only | grep '\.py$')
git commit -q -m "$MSG"
git --no-replace-objects checkout -- .
git log --oneline | head -1
