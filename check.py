#!/venv/bin/python
"""Entry point of the static checks.

    check.py <PROPERTY> [--tier quick|thorough]
    check.py --replay evidence/replay/<id>-<n>.json

exit 0  every obligation decided and holds (known findings printed)
exit 1  VIOLATION property=<id> replay=<path>
exit 2  ANALYSIS-ERROR (anchor vanished, shape not interpretable, checker bug)
"""
import argparse
import importlib
import json
import os
import sys
import traceback

HERE = os.path.dirname(os.path.abspath(__file__))
sys.path.insert(0, HERE)

from sa.model import Program, AnalysisError    # noqa: E402
from sa.report import Run                       # noqa: E402

PROPS = ['C%02d' % i for i in range(1, 20)]


def analyse(pid, tier, overlay=None, root=None, seed=0):
    prog = Program.load(root=root, overlay=overlay)
    run = Run(pid, tier, prog, seed=seed)
    st = prog.stats()
    run.units.update({'modules': len(prog.modules), 'functions': len(prog.funcs),
                      'classes': len(prog.classes), 'call_sites': st})
    if st.get('resolved', 0) < 1000:
        raise AnalysisError('only %d intra-package calls resolve (pinned tree: ~1190): the program model is broken'
                            % st.get('resolved', 0))
    mod = importlib.import_module('sa.rules.' + pid.lower())
    mod.check(run)
    return run


def main(argv=None):
    ap = argparse.ArgumentParser()
    ap.add_argument('pid', nargs='?')
    ap.add_argument('--tier', default=os.environ.get('VERIF_TIER', 'quick'), choices=['quick', 'thorough'])
    ap.add_argument('--replay')
    ap.add_argument('--root', default=None, help='analyse this checkout instead of /repo')
    ap.add_argument('--no-evidence', action='store_true')
    a = ap.parse_args(argv)
    only = None
    pid = a.pid
    if a.replay:
        with open(a.replay) as f:
            r = json.load(f)
        pid, only = r['property'], r['key']
    if pid not in PROPS:
        print('usage: check.py C01..C19 [--tier quick|thorough]')
        return 2
    seed = int(os.environ.get('VERIF_SEED', '0') or 0)
    try:
        run = analyse(pid, a.tier, root=a.root, seed=seed)
        if a.tier == 'thorough' and not a.replay:
            from selftest import driver
            run.selftest = driver.run_for(pid, root=a.root)
        return run.finish(only_key=only, write_evidence=not (a.no_evidence or a.replay))
    except AnalysisError as e:
        print('ANALYSIS-ERROR property=%s %s' % (pid, e))
        return 2
    except Exception:
        traceback.print_exc()
        print('ANALYSIS-ERROR property=%s checker raised (see traceback)' % pid)
        return 2


if __name__ == '__main__':
    sys.exit(main())
